package server

// C10, unit "e2e" — daemon-level confirmation of the documented policy model and of non-interference.
//
// One scenario = one real BgpServer (virtual time) with one or two sources and two targets A and B:
//   mode "rs":    everybody is a route-server client; the sources have per-peer IMPORT policies, A and B have
//                 DIFFERENT per-peer EXPORT policies;
//   mode "plain": eBGP sources, non-client iBGP targets; the GLOBAL import and export policies are used and the
//                 export statements are mostly guarded by neighbour sets naming A or B.
// A random small policy program (prefix / neighbour / as-path / community sets under any/all/invert, as-path
// length; accept / reject / continue; community and large-community add/remove/replace, MED set/+/-, local-pref,
// AS_PATH prepend) is loaded through AddDefinedSet / AddStatement / AddPolicy / AddPolicyAssignment before
// the sessions come up. The sources announce 6-12 routes. At exact quiescence the post-policy ListPath views
// (Loc-RIB, ADJ_IN with and without EnableFiltered, ADJ_OUT) and what A and B received on the wire are
// compared with a plain evaluator of docs/sources/policy.md (e2eC10Eval below: statements in order, a statement
// applies when all its conditions hold, modifications accumulate, first accept/reject decides, else the default).

import (
	"context"
	"fmt"
	"math/rand/v2"
	"net/netip"
	"regexp"
	"sort"
	"strconv"
	"strings"
	"testing"
	"testing/synctest"

	"github.com/osrg/gobgp/v4/api"
	"github.com/osrg/gobgp/v4/internal/verif/vlib"
	"github.com/osrg/gobgp/v4/pkg/packet/bgp"
)

// ---------------------------------------------------------------- program model (what the harness configures)

type e2eC10PfxEnt struct {
	P        netip.Prefix
	Min, Max int
}

type e2eC10Set struct {
	Typ      string // prefix | neighbor | as-path | community
	Name     string
	Prefixes []e2eC10PfxEnt
	List     []string
}

type e2eC10Match struct {
	Set *e2eC10Set
	Opt string // any | all | invert
}

type e2eC10CommAct struct {
	Op   string // add | remove | replace
	List []string
}

type e2eC10Stmt struct {
	Name      string
	Prefix    *e2eC10Match
	Neighbor  *e2eC10Match
	ASPath    *e2eC10Match
	Community *e2eC10Match
	ASLenOp   string // "" | eq | ge | le
	ASLen     int
	Disp      string // accept | reject | ""
	Comm      *e2eC10CommAct
	LComm     *e2eC10CommAct
	MedSet    bool
	MedMod    bool
	MedVal    int64
	LocalPref *uint32
	Prepend   int // repeat count, 0 = none
	PrependAS uint32
	LastAS    bool
}

type e2eC10Policy struct {
	Name  string
	Stmts []*e2eC10Stmt
}

type e2eC10Assign struct {
	Target    string // "" = global
	Import    bool
	Policies  []*e2eC10Policy
	DefAccept bool
}

// ---------------------------------------------------------------- route model

type e2eC10R struct {
	Prefix  netip.Prefix
	ASPath  []uint32 // AS_SEQUENCE members in order
	MED     *uint32
	LP      *uint32
	Comms   []uint32
	LComms  [][3]uint32
	Origin  uint8
	NextHop string
}

func (r e2eC10R) clone() e2eC10R {
	c := r
	c.ASPath = append([]uint32{}, r.ASPath...)
	c.Comms = append([]uint32{}, r.Comms...)
	c.LComms = append([][3]uint32{}, r.LComms...)
	if r.MED != nil {
		v := *r.MED
		c.MED = &v
	}
	if r.LP != nil {
		v := *r.LP
		c.LP = &v
	}
	return c
}

func e2eC10CommText(c uint32) string { return fmt.Sprintf("%d:%d", c>>16, c&0xffff) }
func e2eC10LCommText(l [3]uint32) string {
	return fmt.Sprintf("%d:%d:%d", l[0], l[1], l[2])
}

func e2eC10PathText(p []uint32) string {
	s := make([]string, len(p))
	for i, a := range p {
		s[i] = strconv.FormatUint(uint64(a), 10)
	}
	return strings.Join(s, " ")
}

var e2eC10PlainComm = regexp.MustCompile(`^[0-9]+:[0-9]+(:[0-9]+)?$`)

// a configured community value: a plain value means exactly that value, anything else is a regular expression
func e2eC10CommMatches(member, text string) bool {
	if e2eC10PlainComm.MatchString(member) {
		return member == text
	}
	ok, _ := regexp.MatchString(member, text)
	return ok
}

// policy.md: "Character _ has special meaning. It is abbreviation for (^|[,{}() ]|$)"
func e2eC10ASPathMatches(pattern string, path []uint32) bool {
	re := strings.ReplaceAll(pattern, "_", "(^|[,{}() ]|$)")
	ok, _ := regexp.MatchString(re, e2eC10PathText(path))
	return ok
}

type e2eC10Trace struct {
	DecidedBy string // statement:<name> | default
	Applied   []string
	CondTrue  map[string]bool
	Actions   map[string]bool
	Ambiguous string
}

// e2eC10Eval is the plain reading of docs/sources/policy.md for the constructs the generator emits.
func e2eC10Eval(a *e2eC10Assign, in e2eC10R, neighbor netip.Addr) (accept bool, out e2eC10R, tr *e2eC10Trace) {
	tr = &e2eC10Trace{CondTrue: map[string]bool{}, Actions: map[string]bool{}}
	cur := in.clone()
	for _, pol := range a.Policies {
		for _, st := range pol.Stmts {
			ok := true
			if m := st.Prefix; m != nil {
				hit := false
				for _, e := range m.Set.Prefixes {
					if e.P.Addr().Is4() == cur.Prefix.Addr().Is4() && e.P.Contains(cur.Prefix.Addr()) && cur.Prefix.Bits() >= e.P.Bits() &&
						cur.Prefix.Bits() >= e.Min && cur.Prefix.Bits() <= e.Max {
						hit = true
					}
				}
				if m.Opt == "invert" {
					hit = !hit
				}
				if hit {
					tr.CondTrue["prefix:"+m.Opt] = true
				}
				ok = ok && hit
			}
			if m := st.Neighbor; m != nil {
				hit := false
				for _, x := range m.Set.List {
					if p, err := netip.ParsePrefix(x); err == nil && p.Contains(neighbor) {
						hit = true
					}
				}
				if m.Opt == "invert" {
					hit = !hit
				}
				if hit {
					tr.CondTrue["neighbor:"+m.Opt] = true
				}
				ok = ok && hit
			}
			if m := st.ASPath; m != nil {
				n := 0
				for _, pat := range m.Set.List {
					if e2eC10ASPathMatches(pat, cur.ASPath) {
						n++
					}
				}
				hit := n > 0
				switch m.Opt {
				case "all":
					hit = n == len(m.Set.List)
				case "invert":
					hit = n == 0
				}
				if hit {
					tr.CondTrue["as-path:"+m.Opt] = true
				}
				ok = ok && hit
			}
			if m := st.Community; m != nil {
				n := 0
				for _, mem := range m.Set.List {
					for _, c := range cur.Comms {
						if e2eC10CommMatches(mem, e2eC10CommText(c)) {
							n++
							break
						}
					}
				}
				hit := n > 0
				switch m.Opt {
				case "all":
					hit = n == len(m.Set.List)
				case "invert":
					hit = n == 0
				}
				if hit {
					tr.CondTrue["community:"+m.Opt] = true
				}
				ok = ok && hit
			}
			if st.ASLenOp != "" {
				l := len(cur.ASPath)
				hit := false
				switch st.ASLenOp {
				case "eq":
					hit = l == st.ASLen
				case "ge":
					hit = l >= st.ASLen
				case "le":
					hit = l <= st.ASLen
				}
				if hit {
					tr.CondTrue["as-path-length"] = true
				}
				ok = ok && hit
			}
			if !ok {
				continue
			}
			tr.Applied = append(tr.Applied, st.Name)
			if st.Disp == "reject" {
				tr.DecidedBy = "statement:reject"
				return false, cur, tr
			}
			if c := st.Comm; c != nil {
				tr.Actions["community:"+c.Op] = true
				switch c.Op {
				case "add":
					for _, x := range c.List {
						cur.Comms = append(cur.Comms, e2eC10ParseComm(x))
					}
				case "replace":
					cur.Comms = nil
					for _, x := range c.List {
						cur.Comms = append(cur.Comms, e2eC10ParseComm(x))
					}
				case "remove":
					var keep []uint32
					for _, have := range cur.Comms {
						rm := false
						for _, x := range c.List {
							rm = rm || e2eC10CommMatches(x, e2eC10CommText(have))
						}
						if !rm {
							keep = append(keep, have)
						}
					}
					cur.Comms = keep
				}
			}
			if c := st.LComm; c != nil {
				tr.Actions["large-community:"+c.Op] = true
				switch c.Op {
				case "add":
					for _, x := range c.List {
						cur.LComms = append(cur.LComms, e2eC10ParseLComm(x))
					}
				case "replace":
					cur.LComms = nil
					for _, x := range c.List {
						cur.LComms = append(cur.LComms, e2eC10ParseLComm(x))
					}
				case "remove":
					var keep [][3]uint32
					for _, have := range cur.LComms {
						rm := false
						for _, x := range c.List {
							rm = rm || e2eC10CommMatches(x, e2eC10LCommText(have))
						}
						if !rm {
							keep = append(keep, have)
						}
					}
					cur.LComms = keep
				}
			}
			if st.MedSet {
				tr.Actions["med:replace"] = true
				v := uint32(st.MedVal)
				cur.MED = &v
			}
			if st.MedMod {
				tr.Actions["med:mod"] = true
				if cur.MED == nil {
					tr.Ambiguous = "MED +/- on a route without MED"
				} else {
					nv := int64(*cur.MED) + st.MedVal
					if nv < 0 || nv > 0xffffffff {
						tr.Ambiguous = "MED +/- leaving 0..2^32-1"
					} else {
						v := uint32(nv)
						cur.MED = &v
					}
				}
			}
			if st.LocalPref != nil {
				tr.Actions["local-pref"] = true
				v := *st.LocalPref
				cur.LP = &v
			}
			if st.Prepend > 0 {
				as := st.PrependAS
				if st.LastAS {
					tr.Actions["as-path-prepend:last-as"] = true
					if len(cur.ASPath) == 0 {
						tr.Ambiguous = "last-as on an empty AS_PATH"
					} else {
						as = cur.ASPath[0]
					}
				} else {
					tr.Actions["as-path-prepend:asn"] = true
				}
				for i := 0; i < st.Prepend; i++ {
					cur.ASPath = append([]uint32{as}, cur.ASPath...)
				}
			}
			if st.Disp == "accept" {
				tr.DecidedBy = "statement:accept"
				return true, cur, tr
			}
		}
	}
	if a.DefAccept {
		tr.DecidedBy = "default:accept"
	} else {
		tr.DecidedBy = "default:reject"
	}
	return a.DefAccept, cur, tr
}

func e2eC10ParseComm(s string) uint32 {
	var a, b uint32
	fmt.Sscanf(s, "%d:%d", &a, &b)
	return a<<16 | b
}

func e2eC10ParseLComm(s string) [3]uint32 {
	var l [3]uint32
	fmt.Sscanf(s, "%d:%d:%d", &l[0], &l[1], &l[2])
	return l
}

// ---------------------------------------------------------------- generator

type e2eC10Gen struct {
	r     *rand.Rand
	v6    bool
	rs    bool
	nsets int
	nst   int
	sets  []*e2eC10Set
	peers map[string]string // role -> address
}

var e2eC10V4Routes = []string{"10.1.0.0/16", "10.1.1.0/24", "10.1.1.128/25", "10.2.0.0/16", "10.2.3.0/24", "172.16.0.0/12", "172.16.5.0/24", "192.0.2.0/24", "192.0.2.128/26", "10.1.2.0/24", "198.51.100.0/24", "10.2.3.4/32"}
var e2eC10V6Routes = []string{"2001:db8::/32", "2001:db8:1::/48", "2001:db8:1:2::/64", "2001:db8:2::/48", "2001:db8:ffff::/48", "2001:db9::/32", "2001:db8:1:3::/64", "2001:db8:2:1::/64", "2001:db8:1:2::1/128", "2001:dba::/48"}
var e2eC10TailAS = []uint32{64512, 64513, 64514, 100, 200, 4200000009}
var e2eC10Comms = []string{"65000:1", "65000:2", "65001:1", "65001:2", "64512:100", "0:666"}
var e2eC10LComms = []string{"65000:1:1", "65000:1:2", "4200000009:0:7"}

func (g *e2eC10Gen) newSet(typ string) *e2eC10Set {
	r := g.r
	g.nsets++
	s := &e2eC10Set{Typ: typ, Name: fmt.Sprintf("%s%d", map[string]string{"prefix": "ps", "neighbor": "ns", "as-path": "as", "community": "cs"}[typ], g.nsets)}
	n := 1 + r.IntN(3)
	switch typ {
	case "prefix":
		type ent struct {
			p      string
			lo, hi int
		}
		pool := []ent{{"10.0.0.0/8", 16, 24}, {"10.1.0.0/16", 16, 16}, {"10.1.0.0/16", 16, 32}, {"172.16.0.0/12", 12, 24}, {"192.0.2.0/24", 24, 32}, {"0.0.0.0/0", 0, 32}, {"0.0.0.0/0", 25, 32}, {"10.2.0.0/16", 24, 32}, {"10.1.1.0/24", 25, 25}}
		if g.v6 {
			pool = []ent{{"2001:db8::/32", 32, 48}, {"2001:db8:1::/48", 48, 48}, {"2001:db8:1::/48", 48, 128}, {"2001:db8::/32", 64, 64}, {"::/0", 0, 128}, {"::/0", 49, 128}, {"2001:db9::/32", 32, 32}, {"2001:db8:2::/48", 64, 128}}
		}
		for _, i := range r.Perm(len(pool))[:n] {
			s.Prefixes = append(s.Prefixes, e2eC10PfxEnt{P: netip.MustParsePrefix(pool[i].p), Min: pool[i].lo, Max: pool[i].hi})
		}
	case "as-path":
		pool := []string{"_64512_", "_64513$", "_100_", "^65001_", "^65002_", "_200$", "_(64512|64514)_", "6451[2-3]", "^[0-9]+_64513", "_4200000009_", "^6500[12]_100_", "_64514_64512_"}
		for _, i := range r.Perm(len(pool))[:n] {
			s.List = append(s.List, pool[i])
		}
	case "community":
		pool := append(append([]string{}, e2eC10Comms...), "^65000:.*$", "^6500[01]:[12]$", "^0:66.$", "^64512:1..$", "^6501[12]:[0-9]+$", "65055:7")
		for _, i := range r.Perm(len(pool))[:n] {
			s.List = append(s.List, pool[i])
		}
	}
	g.sets = append(g.sets, s)
	return s
}

func (g *e2eC10Gen) neighborSet(addrs ...string) *e2eC10Set {
	g.nsets++
	s := &e2eC10Set{Typ: "neighbor", Name: fmt.Sprintf("ns%d", g.nsets)}
	for _, a := range addrs {
		s.List = append(s.List, a+"/32")
	}
	g.sets = append(g.sets, s)
	return s
}

func (g *e2eC10Gen) opt(withAll bool) string {
	switch k := g.r.IntN(10); {
	case k < 6:
		return "any"
	case k < 8 && withAll:
		return "all"
	default:
		return "invert"
	}
}

// ctx: "import" | "export:A" | "export:B" | "export" (plain global export, guarded by neighbour sets)
func (g *e2eC10Gen) stmt(polName string, i int, ctx string) *e2eC10Stmt {
	r := g.r
	g.nst++
	st := &e2eC10Stmt{Name: fmt.Sprintf("%s_s%d", polName, i)}
	if r.IntN(100) < 85 {
		if r.IntN(100) < 40 {
			st.Prefix = &e2eC10Match{Set: g.newSet("prefix"), Opt: g.opt(false)}
		}
		if r.IntN(100) < 30 {
			st.ASPath = &e2eC10Match{Set: g.newSet("as-path"), Opt: g.opt(true)}
		}
		if r.IntN(100) < 30 {
			st.Community = &e2eC10Match{Set: g.newSet("community"), Opt: g.opt(true)}
		}
		if r.IntN(100) < 15 {
			st.ASLenOp, st.ASLen = []string{"eq", "ge", "le"}[r.IntN(3)], 1+r.IntN(4)
		}
	}
	switch {
	case ctx == "import" && r.IntN(100) < 30:
		who := []string{g.peers["S1"]}
		if a, ok := g.peers["S2"]; ok && r.IntN(2) == 0 {
			who = []string{a}
		}
		st.Neighbor = &e2eC10Match{Set: g.neighborSet(who...), Opt: g.opt(false)}
	case ctx == "export" && r.IntN(100) < 75:
		// the global export policy tells the targets apart by neighbour sets
		who := []string{g.peers["A"]}
		if r.IntN(2) == 0 {
			who = []string{g.peers["B"]}
		}
		st.Neighbor = &e2eC10Match{Set: g.neighborSet(who...), Opt: g.opt(false)}
	case strings.HasPrefix(ctx, "export:") && r.IntN(100) < 20:
		who := []string{g.peers["A"], g.peers["B"]}[r.IntN(2)]
		st.Neighbor = &e2eC10Match{Set: g.neighborSet(who), Opt: g.opt(false)}
	}
	switch k := r.IntN(100); {
	case k < 35:
		st.Disp = "accept"
	case k < 55:
		st.Disp = "reject"
	}
	if st.Disp != "reject" {
		tag := map[string]string{"import": "65020", "export:A": "65011", "export:B": "65012", "export": "65013"}[ctx]
		for _, k := range r.Perm(5)[:r.IntN(4)] {
			switch k {
			case 0:
				c := &e2eC10CommAct{Op: []string{"add", "add", "remove", "replace"}[r.IntN(4)]}
				switch c.Op {
				case "remove":
					c.List = []string{[]string{"65000:1", "^65000:.*$", "65001:2", "^6500[01]:1$", "^6502.:.*$"}[r.IntN(5)]}
				default:
					c.List = []string{fmt.Sprintf("%s:%d", tag, 1+r.IntN(9))}
					if r.IntN(3) == 0 {
						c.List = append(c.List, "65000:2")
					}
				}
				st.Comm = c
			case 1:
				c := &e2eC10CommAct{Op: []string{"add", "add", "remove", "replace"}[r.IntN(4)]}
				switch c.Op {
				case "remove":
					c.List = []string{e2eC10LComms[r.IntN(len(e2eC10LComms))]}
				default:
					c.List = []string{fmt.Sprintf("%s:%d:%d", tag, r.IntN(3), 1+r.IntN(9))}
				}
				st.LComm = c
			case 2:
				if r.IntN(2) == 0 {
					st.MedSet, st.MedVal = true, int64([]int{0, 5, 70, 200}[r.IntN(4)])
				} else {
					st.MedMod, st.MedVal = true, int64([]int{10, 40, -5, -60}[r.IntN(4)])
				}
			case 3:
				if !g.rs {
					v := []uint32{50, 150, 300}[r.IntN(3)]
					st.LocalPref = &v
				}
			case 4:
				st.Prepend = 1 + r.IntN(3)
				if r.IntN(2) == 0 {
					st.LastAS = true
				} else {
					st.PrependAS = []uint32{65055, 64999, 4200000009}[r.IntN(3)]
				}
			}
		}
	}
	return st
}

func (g *e2eC10Gen) policy(name, ctx string, many bool) *e2eC10Policy {
	p := &e2eC10Policy{Name: name}
	n := 1 + g.r.IntN(3)
	for i := 0; i < n; i++ {
		p.Stmts = append(p.Stmts, g.stmt(name, i, ctx))
	}
	if many {
		// several unconditional community / large-community adds in a row: the stored attribute's slices grow by
		// appending, so later per-target copies start from slices with spare capacity
		for i := 0; i < 3+g.r.IntN(3); i++ {
			g.nst++
			st := &e2eC10Stmt{Name: fmt.Sprintf("%s_grow%d", name, i)}
			st.Comm = &e2eC10CommAct{Op: "add", List: []string{fmt.Sprintf("65020:%d", 100+i)}}
			st.LComm = &e2eC10CommAct{Op: "add", List: []string{fmt.Sprintf("65020:9:%d", 100+i)}}
			p.Stmts = append([]*e2eC10Stmt{st}, p.Stmts...)
		}
	}
	return p
}

func (g *e2eC10Gen) assign(target string, imp bool, ctx string, base string) *e2eC10Assign {
	a := &e2eC10Assign{Target: target, Import: imp, DefAccept: g.r.IntN(4) != 0}
	n := 1 + g.r.IntN(2)
	if ctx == "export" {
		n = 2 + g.r.IntN(2)
	}
	for i := 0; i < n; i++ {
		a.Policies = append(a.Policies, g.policy(fmt.Sprintf("%s%d", base, i), ctx, imp && i == 0 && g.r.IntN(2) == 0))
	}
	return a
}

// ---------------------------------------------------------------- loading through the public API

func e2eC10MatchAPI(m *e2eC10Match) *api.MatchSet {
	if m == nil {
		return nil
	}
	t := map[string]api.MatchSet_Type{"any": api.MatchSet_TYPE_ANY, "all": api.MatchSet_TYPE_ALL, "invert": api.MatchSet_TYPE_INVERT}[m.Opt]
	return &api.MatchSet{Type: t, Name: m.Set.Name}
}

func e2eC10CommActAPI(c *e2eC10CommAct) *api.CommunityAction {
	if c == nil {
		return nil
	}
	t := map[string]api.CommunityAction_Type{"add": api.CommunityAction_TYPE_ADD, "remove": api.CommunityAction_TYPE_REMOVE, "replace": api.CommunityAction_TYPE_REPLACE}[c.Op]
	return &api.CommunityAction{Type: t, Communities: append([]string{}, c.List...)}
}

func e2eC10Load(s *BgpServer, sets []*e2eC10Set, asg []*e2eC10Assign) error {
	ctx := context.Background()
	for _, st := range sets {
		d := &api.DefinedSet{Name: st.Name}
		switch st.Typ {
		case "prefix":
			d.DefinedType = api.DefinedType_DEFINED_TYPE_PREFIX
			for _, e := range st.Prefixes {
				d.Prefixes = append(d.Prefixes, &api.Prefix{IpPrefix: e.P.String(), MaskLengthMin: uint32(e.Min), MaskLengthMax: uint32(e.Max)})
			}
		case "neighbor":
			d.DefinedType, d.List = api.DefinedType_DEFINED_TYPE_NEIGHBOR, st.List
		case "as-path":
			d.DefinedType, d.List = api.DefinedType_DEFINED_TYPE_AS_PATH, st.List
		case "community":
			d.DefinedType, d.List = api.DefinedType_DEFINED_TYPE_COMMUNITY, st.List
		}
		if err := s.AddDefinedSet(ctx, &api.AddDefinedSetRequest{DefinedSet: d}); err != nil {
			return fmt.Errorf("AddDefinedSet %s: %w", st.Name, err)
		}
	}
	for _, a := range asg {
		var refs []*api.Policy
		for _, p := range a.Policies {
			ap := &api.Policy{Name: p.Name}
			for _, st := range p.Stmts {
				cond := &api.Conditions{PrefixSet: e2eC10MatchAPI(st.Prefix), NeighborSet: e2eC10MatchAPI(st.Neighbor), AsPathSet: e2eC10MatchAPI(st.ASPath), CommunitySet: e2eC10MatchAPI(st.Community)}
				if st.ASLenOp != "" {
					cond.AsPathLength = &api.AsPathLength{Type: map[string]api.Comparison{"eq": api.Comparison_COMPARISON_EQ, "ge": api.Comparison_COMPARISON_GE, "le": api.Comparison_COMPARISON_LE}[st.ASLenOp], Length: uint32(st.ASLen)}
				}
				act := &api.Actions{Community: e2eC10CommActAPI(st.Comm), LargeCommunity: e2eC10CommActAPI(st.LComm)}
				switch st.Disp {
				case "accept":
					act.RouteAction = api.RouteAction_ROUTE_ACTION_ACCEPT
				case "reject":
					act.RouteAction = api.RouteAction_ROUTE_ACTION_REJECT
				}
				if st.MedSet {
					act.Med = &api.MedAction{Type: api.MedAction_TYPE_REPLACE, Value: st.MedVal}
				}
				if st.MedMod {
					act.Med = &api.MedAction{Type: api.MedAction_TYPE_MOD, Value: st.MedVal}
				}
				if st.LocalPref != nil {
					act.LocalPref = &api.LocalPrefAction{Value: *st.LocalPref}
				}
				if st.Prepend > 0 {
					act.AsPrepend = &api.AsPrependAction{Asn: st.PrependAS, Repeat: uint32(st.Prepend), UseLeftMost: st.LastAS}
				}
				as := &api.Statement{Name: st.Name, Conditions: cond, Actions: act}
				if err := s.AddStatement(ctx, &api.AddStatementRequest{Statement: as}); err != nil {
					return fmt.Errorf("AddStatement %s: %w", st.Name, err)
				}
				ap.Statements = append(ap.Statements, &api.Statement{Name: st.Name})
			}
			if err := s.AddPolicy(ctx, &api.AddPolicyRequest{Policy: ap, ReferExistingStatements: true}); err != nil {
				return fmt.Errorf("AddPolicy %s: %w", p.Name, err)
			}
			refs = append(refs, &api.Policy{Name: p.Name})
		}
		dir := api.PolicyDirection_POLICY_DIRECTION_EXPORT
		if a.Import {
			dir = api.PolicyDirection_POLICY_DIRECTION_IMPORT
		}
		def := api.RouteAction_ROUTE_ACTION_REJECT
		if a.DefAccept {
			def = api.RouteAction_ROUTE_ACTION_ACCEPT
		}
		name := a.Target
		if name == "" {
			name = "global"
		}
		if err := s.AddPolicyAssignment(ctx, &api.AddPolicyAssignmentRequest{Assignment: &api.PolicyAssignment{Name: name, Direction: dir, Policies: refs, DefaultAction: def}}); err != nil {
			return fmt.Errorf("AddPolicyAssignment %s/%v: %w", name, dir, err)
		}
	}
	return nil
}

func e2eC10Describe(asg []*e2eC10Assign) []string {
	var out []string
	for _, a := range asg {
		dir := "export"
		if a.Import {
			dir = "import"
		}
		t := a.Target
		if t == "" {
			t = "global"
		}
		out = append(out, fmt.Sprintf("ASSIGN %s %s default-accept=%v", t, dir, a.DefAccept))
		for _, p := range a.Policies {
			for _, st := range p.Stmts {
				var c []string
				add := func(n string, m *e2eC10Match) {
					if m != nil {
						if m.Set.Typ == "prefix" {
							c = append(c, fmt.Sprintf("%s %s %v", n, m.Opt, m.Set.Prefixes))
						} else {
							c = append(c, fmt.Sprintf("%s %s %v", n, m.Opt, m.Set.List))
						}
					}
				}
				add("prefix", st.Prefix)
				add("neighbor", st.Neighbor)
				add("as-path", st.ASPath)
				add("community", st.Community)
				if st.ASLenOp != "" {
					c = append(c, fmt.Sprintf("as-path-length %s %d", st.ASLenOp, st.ASLen))
				}
				var ac []string
				if st.Comm != nil {
					ac = append(ac, fmt.Sprintf("community %s %v", st.Comm.Op, st.Comm.List))
				}
				if st.LComm != nil {
					ac = append(ac, fmt.Sprintf("large-community %s %v", st.LComm.Op, st.LComm.List))
				}
				if st.MedSet {
					ac = append(ac, fmt.Sprintf("med=%d", st.MedVal))
				}
				if st.MedMod {
					ac = append(ac, fmt.Sprintf("med%+d", st.MedVal))
				}
				if st.LocalPref != nil {
					ac = append(ac, fmt.Sprintf("local-pref=%d", *st.LocalPref))
				}
				if st.Prepend > 0 {
					ac = append(ac, fmt.Sprintf("prepend as=%d last-as=%v x%d", st.PrependAS, st.LastAS, st.Prepend))
				}
				out = append(out, fmt.Sprintf("  %s/%s: IF %s THEN %s DISPOSITION %q", p.Name, st.Name, strings.Join(c, " AND "), strings.Join(ac, ", "), st.Disp))
			}
		}
	}
	return out
}

// ---------------------------------------------------------------- observation -> route model

func e2eC10FromWire(rt *e2eRoute, pfx netip.Prefix) (e2eC10R, error) {
	out := e2eC10R{Prefix: pfx, NextHop: fmt.Sprintf("%x", rt.NextHop)}
	segs, has, err := rt.asPath(4)
	if err != nil {
		return out, fmt.Errorf("AS_PATH: %v", err)
	}
	if !has {
		return out, fmt.Errorf("no AS_PATH")
	}
	for _, s := range segs {
		if s.Type != bgp.BGP_ASPATH_ATTR_TYPE_SEQ {
			return out, fmt.Errorf("AS_PATH segment type %d appeared", s.Type)
		}
		out.ASPath = append(out.ASPath, s.AS...)
	}
	out.MED, out.LP = rt.u32(4), rt.u32(5)
	if out.Comms, err = rt.communities(); err != nil {
		return out, err
	}
	if out.LComms, err = rt.largeCommunities(); err != nil {
		return out, err
	}
	if a := rt.attr(1); a != nil && len(a.Value) == 1 {
		out.Origin = a.Value[0]
	} else {
		return out, fmt.Errorf("no ORIGIN")
	}
	return out, nil
}

func e2eC10SetText[T any](xs []T, f func(T) string) string {
	m := map[string]bool{}
	for _, x := range xs {
		m[f(x)] = true
	}
	var ks []string
	for k := range m {
		ks = append(ks, k)
	}
	sort.Strings(ks)
	return strings.Join(ks, " ")
}

func e2eC10U32(p *uint32) string {
	if p == nil {
		return "absent"
	}
	return fmt.Sprint(*p)
}

// fields returns the comparable picture of a route: field name -> canonical text
func (r e2eC10R) fields() map[string]string {
	return map[string]string{
		"as-path":         e2eC10PathText(r.ASPath),
		"med":             e2eC10U32(r.MED),
		"local-pref":      e2eC10U32(r.LP),
		"community":       e2eC10SetText(r.Comms, e2eC10CommText),
		"large-community": e2eC10SetText(r.LComms, e2eC10LCommText),
		"origin":          fmt.Sprint(r.Origin),
		"next-hop":        r.NextHop,
	}
}

var e2eC10FieldOrder = []string{"as-path", "med", "local-pref", "community", "large-community", "origin", "next-hop"}

// ---------------------------------------------------------------- scenario

type e2eC10Sent struct {
	src  string // role
	r    e2eC10R
	fam  bgp.Family
	key  simRouteKey
	impT *e2eC10Trace
}

func TestVerifE2E_C10(t *testing.T) {
	rec := vlib.Open("C10")
	defer rec.Close()
	total := vlib.Scale(480, 9600)
	vlib.Cases(total, func(idx int) {
		rec.Mark(fmt.Sprintf("e2e c10 scenario %d", idx), true)
		synctest.Test(t, func(t *testing.T) { e2eC10Scenario(t, rec, idx) })
	})
}

func e2eC10Scenario(t *testing.T, rec *vlib.Rec, idx int) {
	r := vlib.CaseRand("e2e-c10", idx)
	rs := idx%2 == 0
	v6 := r.IntN(3) == 0
	mode := "plain"
	if rs {
		mode = "rs"
	}
	n := simStart(t, &api.Global{Asn: simLocalAS, RouterId: "1.1.1.1"})
	defer func() {
		n.stop()
		synctest.Wait()
	}()
	roles := []string{"S1", "A", "B"}
	if r.IntN(2) == 0 {
		roles = []string{"S1", "S2", "A", "B"}
	}
	addr := map[string]string{"S1": "10.0.0.2", "S2": "10.0.0.3", "A": "10.0.0.4", "B": "10.0.0.5"}
	asn := map[string]uint32{"S1": 65001, "S2": 65002, "A": 65011, "B": 65012}
	sps := map[string]*simSpeaker{}
	for _, ro := range roles {
		ps := simPeerSpec{Addr: addr[ro], AS: asn[ro], ID: addr[ro], V6: true}
		switch {
		case rs:
			ps.Kind = simRSClient
		case ro == "A" || ro == "B":
			ps.Kind, ps.AS = simIBGP, simLocalAS
		default:
			ps.Kind = simEBGP
		}
		sp, err := n.addPeer(ps)
		if err != nil {
			rec.Inconclusive("e2e c10: AddPeer: " + err.Error())
			return
		}
		sps[ro] = sp
	}
	// ---- the policy program
	g := &e2eC10Gen{r: r, v6: v6, rs: rs, peers: map[string]string{}}
	for _, ro := range roles {
		g.peers[ro] = addr[ro]
	}
	imp := map[string]*e2eC10Assign{} // source role -> import assignment
	exp := map[string]*e2eC10Assign{} // target role -> export assignment
	var asg []*e2eC10Assign
	if rs {
		for _, ro := range roles {
			if ro[0] == 'S' {
				imp[ro] = g.assign(addr[ro], true, "import", "imp"+ro)
				asg = append(asg, imp[ro])
			}
		}
		exp["A"] = g.assign(addr["A"], false, "export:A", "expA")
		exp["B"] = g.assign(addr["B"], false, "export:B", "expB")
		asg = append(asg, exp["A"], exp["B"])
	} else {
		gi := g.assign("", true, "import", "imp")
		ge := g.assign("", false, "export", "exp")
		for _, ro := range roles {
			if ro[0] == 'S' {
				imp[ro] = gi
			}
		}
		exp["A"], exp["B"] = ge, ge
		asg = append(asg, gi, ge)
	}
	if err := e2eC10Load(n.s, g.sets, asg); err != nil {
		rec.Violation("e2e:c10:load:api-refuses-program", "a generated policy program is refused: "+err.Error(), map[string]any{"case": idx, "mode": mode, "program": e2eC10Describe(asg)})
		return
	}
	synctest.Wait()
	for _, ro := range roles {
		if err := sps[ro].bringUp(40); err != nil {
			rec.Inconclusive("e2e c10: " + err.Error())
			return
		}
	}
	rec.Eval()
	rec.Count("e2e:c10:scenarios", 1)
	rec.Count("e2e:c10:mode:"+mode, 1)

	// ---- routes
	pool := e2eC10V4Routes
	fam := bgp.RF_IPv4_UC
	if v6 {
		pool, fam = e2eC10V6Routes, bgp.RF_IPv6_UC
	}
	perm := r.Perm(len(pool))
	nroutes := 6 + r.IntN(len(pool)-5)
	var sent []*e2eC10Sent
	for i := 0; i < nroutes && i < len(pool); i++ {
		src := "S1"
		if _, ok := sps["S2"]; ok && r.IntN(2) == 0 {
			src = "S2"
		}
		pfx := netip.MustParsePrefix(pool[perm[i]])
		ro := e2eC10R{Prefix: pfx, Origin: uint8(r.IntN(3)), ASPath: []uint32{asn[src]}}
		for k := r.IntN(4); k > 0; k-- {
			ro.ASPath = append(ro.ASPath, e2eC10TailAS[r.IntN(len(e2eC10TailAS))])
		}
		if r.IntN(10) < 7 {
			v := []uint32{0, 10, 50, 4294967290}[r.IntN(4)]
			ro.MED = &v
		}
		for k := r.IntN(4); k > 0; k-- {
			ro.Comms = append(ro.Comms, e2eC10ParseComm(e2eC10Comms[r.IntN(len(e2eC10Comms))]))
		}
		ro.Comms = e2eC10Uniq(ro.Comms)
		for k := r.IntN(3); k > 0; k-- {
			ro.LComms = append(ro.LComms, e2eC10ParseLComm(e2eC10LComms[r.IntN(len(e2eC10LComms))]))
		}
		ro.LComms = e2eC10Uniq(ro.LComms)
		// the message
		attrs := []bgp.PathAttributeInterface{bgp.NewPathAttributeOrigin(ro.Origin), bgp.NewPathAttributeAsPath([]bgp.AsPathParamInterface{bgp.NewAs4PathParam(bgp.BGP_ASPATH_ATTR_TYPE_SEQ, append([]uint32{}, ro.ASPath...))})}
		if ro.MED != nil {
			attrs = append(attrs, bgp.NewPathAttributeMultiExitDisc(*ro.MED))
		}
		if len(ro.Comms) > 0 {
			attrs = append(attrs, bgp.NewPathAttributeCommunities(append([]uint32{}, ro.Comms...)))
		}
		if len(ro.LComms) > 0 {
			var ls []*bgp.LargeCommunity
			for _, l := range ro.LComms {
				ls = append(ls, bgp.NewLargeCommunity(l[0], l[1], l[2]))
			}
			attrs = append(attrs, bgp.NewPathAttributeLargeCommunities(ls))
		}
		nl, _ := bgp.NewIPAddrPrefix(pfx)
		var msg *bgp.BGPMessage
		if v6 {
			nh := netip.MustParseAddr(simV6Of(addr[src]))
			mp, _ := bgp.NewPathAttributeMpReachNLRI(fam, []bgp.PathNLRI{{NLRI: nl}}, nh)
			msg = bgp.NewBGPUpdateMessage(nil, append(attrs, mp), nil)
			ro.NextHop = fmt.Sprintf("%x", nh.AsSlice())
		} else {
			nh := netip.MustParseAddr(addr[src])
			na, _ := bgp.NewPathAttributeNextHop(nh)
			msg = bgp.NewBGPUpdateMessage(nil, append(attrs, na), []bgp.PathNLRI{{NLRI: nl}})
			ro.NextHop = fmt.Sprintf("%x", nh.AsSlice())
		}
		if err := sps[src].sendMsg(msg); err != nil {
			rec.Inconclusive("e2e c10: send: " + err.Error())
			return
		}
		sent = append(sent, &e2eC10Sent{src: src, r: ro, fam: fam, key: simRouteKey{fam, nl.String(), 0}})
	}
	synctest.Wait()

	wit := func(extra map[string]any) map[string]any {
		w := map[string]any{"case": idx, "mode": mode, "family": fam.String(), "peers": fmt.Sprint(g.peers), "program": e2eC10Describe(asg)}
		for k, v := range extra {
			w[k] = v
		}
		return w
	}
	for _, ro := range roles {
		if !e2eEstablished(n, addr[ro]) {
			rec.Violation("e2e:c10:session-lost:"+mode, "session to "+ro+" was lost although only well-formed routes were announced", wit(map[string]any{"peer": ro}))
			return
		}
	}

	// ---- observation
	adjInRaw, adjInFlt := map[string]map[string][]e2eAPIPath{}, map[string]map[string][]e2eAPIPath{}
	for _, ro := range roles {
		if ro[0] != 'S' {
			continue
		}
		var err error
		if adjInRaw[ro], err = e2eListPath(n, api.TableType_TABLE_TYPE_ADJ_IN, addr[ro], fam, false); err != nil {
			rec.Inconclusive("e2e c10: ListPath(ADJ_IN): " + err.Error())
			return
		}
		if adjInFlt[ro], err = e2eListPath(n, api.TableType_TABLE_TYPE_ADJ_IN, addr[ro], fam, true); err != nil {
			rec.Inconclusive("e2e c10: ListPath(ADJ_IN, filtered): " + err.Error())
			return
		}
	}
	loc := map[string]map[string][]e2eAPIPath{} // target role -> Loc-RIB it is fed from
	adjOut := map[string]map[simRouteKey]*e2eRoute{}
	wireV := map[string]map[simRouteKey]*e2eRoute{}
	for _, T := range []string{"A", "B"} {
		var err error
		if rs {
			loc[T], err = e2eListPath(n, api.TableType_TABLE_TYPE_LOCAL, addr[T], fam, false)
		} else {
			loc[T], err = e2eListPath(n, api.TableType_TABLE_TYPE_GLOBAL, "", fam, false)
		}
		if err != nil {
			rec.Inconclusive("e2e c10: ListPath(Loc-RIB): " + err.Error())
			return
		}
		if adjOut[T], err = e2eAdjOut(n, addr[T], []bgp.Family{fam}); err != nil {
			rec.Inconclusive("e2e c10: ListPath(ADJ_OUT): " + err.Error())
			return
		}
		ups, problems := e2eDecodeRx(sps[T])
		for _, pr := range problems {
			rec.Violation("e2e:c10:wire:malformed-message", "a message sent to "+T+" is malformed: "+pr, wit(map[string]any{"rx": e2eRxLog(sps[T], 6)}))
		}
		wireV[T], _ = e2eApply(ups)
	}

	// ---- judge every route
	reached := 0
	shape := map[string]bool{mode: true}
	diff := func(got, want e2eC10R) []string {
		g, w := got.fields(), want.fields()
		var d []string
		for _, f := range e2eC10FieldOrder {
			if g[f] != w[f] {
				d = append(d, f)
			}
		}
		return d
	}
	for _, s := range sent {
		rw := func(extra map[string]any) map[string]any {
			w := wit(map[string]any{"source": s.src, "prefix": s.key.Prefix, "announced": s.r.fields()})
			for k, v := range extra {
				w[k] = v
			}
			return w
		}
		rec.Count("e2e:c10:routes", 1)
		srcAddr := netip.MustParseAddr(addr[s.src])
		accI, afterI, trI := e2eC10Eval(imp[s.src], s.r, srcAddr)
		if trI.Ambiguous != "" {
			rec.Count("e2e:c10:amb:"+trI.Ambiguous, 1)
			continue
		}
		for k := range trI.CondTrue {
			rec.Count("e2e:c10:cond_true:"+k, 1)
			shape["ci:"+k] = true
		}
		for k := range trI.Actions {
			rec.Count("e2e:c10:action:"+k, 1)
			shape["ai:"+k] = true
		}
		rec.Count("e2e:c10:import:decided_by:"+trI.DecidedBy, 1)
		shape["di:"+trI.DecidedBy] = true

		// (1) ADJ_IN as received: never touched by policy
		if ps := adjInRaw[s.src][s.key.Prefix]; len(ps) != 1 {
			rec.Violation("e2e:c10:adj-in:route-missing", fmt.Sprintf("ListPath(ADJ_IN) of %s lists %d paths for an announced prefix", s.src, len(ps)), rw(nil))
		} else if got, err := e2eC10FromWire(ps[0].Route, s.r.Prefix); err != nil {
			rec.Violation("e2e:c10:adj-in:malformed", err.Error(), rw(nil))
		} else if d := diff(got, s.r); len(d) > 0 {
			rec.Violation("e2e:c10:adj-in:stored-route-changed:"+strings.Join(d, "+"), fmt.Sprintf("the route as stored in the Adj-RIB-In of %s differs from what was announced in %v: %v", s.src, d, got.fields()), rw(map[string]any{"import_trace": trI}))
		}
		rec.Count("e2e:c10:listpath:adj-in", 1)
		// (2) the filtered flag
		if ps := adjInFlt[s.src][s.key.Prefix]; len(ps) == 1 {
			if ps[0].Filtered == accI {
				rec.Violation("e2e:c10:adj-in:filtered-flag:"+mode, fmt.Sprintf("ListPath(ADJ_IN, EnableFiltered) says filtered=%v, the import policy %s the route (decided by %s)", ps[0].Filtered, map[bool]string{true: "accepts", false: "rejects"}[accI], trI.DecidedBy), rw(map[string]any{"import_trace": trI}))
			}
			rec.Count("e2e:c10:listpath:adj-in-filtered", 1)
		} else {
			rec.Violation("e2e:c10:adj-in:route-missing", fmt.Sprintf("ListPath(ADJ_IN, EnableFiltered) of %s lists %d paths for an announced prefix", s.src, len(ps)), rw(nil))
		}
		if !accI {
			rec.Count("e2e:c10:import:rejected", 1)
		} else {
			rec.Count("e2e:c10:import:accepted", 1)
		}
		var expT [2]*e2eC10R
		var skipT [2]bool
		for ti, T := range []string{"A", "B"} {
			// (3) Loc-RIB
			ps := loc[T][s.key.Prefix]
			if !accI {
				if len(ps) > 0 {
					rec.Violation("e2e:c10:import:accepted-but-model-rejects:"+mode, fmt.Sprintf("the import policy rejects the route (decided by %s) but the Loc-RIB feeding %s holds it", trI.DecidedBy, T), rw(map[string]any{"import_trace": trI}))
				}
				if _, ok := wireV[T][s.key]; ok {
					rec.Violation("e2e:c10:import:rejected-route-advertised:"+mode, fmt.Sprintf("the import policy rejects the route (decided by %s) but %s received it", trI.DecidedBy, T), rw(map[string]any{"import_trace": trI}))
				}
				continue
			}
			if len(ps) != 1 {
				skipT[ti] = true
				rec.Violation("e2e:c10:import:rejected-but-model-accepts:"+mode, fmt.Sprintf("the import policy accepts the route (decided by %s) but the Loc-RIB feeding %s lists %d paths", trI.DecidedBy, T, len(ps)), rw(map[string]any{"import_trace": trI}))
				continue
			}
			if got, err := e2eC10FromWire(ps[0].Route, s.r.Prefix); err != nil {
				rec.Violation("e2e:c10:import:malformed", err.Error(), rw(nil))
			} else if d := diff(got, afterI); len(d) > 0 {
				rec.Violation("e2e:c10:import:attrs:"+strings.Join(d, "+")+":"+mode, fmt.Sprintf("after the import policy the Loc-RIB route differs from the model in %v: has %v, model %v", d, got.fields(), afterI.fields()), rw(map[string]any{"import_trace": trI}))
			}
			rec.Count("e2e:c10:listpath:loc-rib", 1)
			// (4) export towards T
			accE, afterE, trE := e2eC10Eval(exp[T], afterI, netip.MustParseAddr(addr[T]))
			if trE.Ambiguous != "" {
				rec.Count("e2e:c10:amb:"+trE.Ambiguous, 1)
				skipT[ti] = true
				continue
			}
			for k := range trE.CondTrue {
				rec.Count("e2e:c10:cond_true:"+k, 1)
				shape["ce:"+k] = true
			}
			for k := range trE.Actions {
				rec.Count("e2e:c10:action:"+k, 1)
				shape["ae:"+k] = true
			}
			rec.Count("e2e:c10:export:decided_by:"+trE.DecidedBy, 1)
			shape["de:"+trE.DecidedBy] = true
			if !rs && afterE.LP == nil {
				v := uint32(100) // towards iBGP peers LOCAL_PREF is always present (RFC 4271 5.1.5), default 100
				afterE.LP = &v
			}
			if accE {
				e := afterE
				expT[ti] = &e
			}
		}
		if !accI {
			continue
		}
		if !skipT[0] && !skipT[1] && ((expT[0] == nil) != (expT[1] == nil) || (expT[0] != nil && len(diff(*expT[0], *expT[1])) > 0)) {
			rec.Count("e2e:c10:targets_differ", 1)
			shape["targets-differ"] = true
		}
		for ti, T := range []string{"A", "B"} {
			if skipT[ti] {
				continue
			}
			other := expT[1-ti]
			if skipT[1-ti] {
				other = nil
			}
			for _, view := range []string{"wire", "adj-out"} {
				var got *e2eRoute
				if view == "wire" {
					got = wireV[T][s.key]
				} else {
					got = adjOut[T][s.key]
				}
				w := func(extra map[string]any) map[string]any {
					m := rw(map[string]any{"target": T, "view": view, "after_import": afterI.fields()})
					for k, v := range extra {
						m[k] = v
					}
					return m
				}
				switch {
				case expT[ti] == nil && got != nil:
					rec.Violation("e2e:c10:export:"+view+":advertised-but-model-rejects:"+mode, fmt.Sprintf("the export policy towards %s rejects the route, yet it is in the %s view", T, view), w(nil))
				case expT[ti] != nil && got == nil:
					rec.Violation("e2e:c10:export:"+view+":missing-but-model-accepts:"+mode, fmt.Sprintf("the export policy towards %s accepts the route, yet it is not in the %s view", T, view), w(map[string]any{"model": expT[ti].fields()}))
				case expT[ti] != nil:
					gr, err := e2eC10FromWire(got, s.r.Prefix)
					if err != nil {
						rec.Violation("e2e:c10:export:"+view+":malformed", err.Error(), w(nil))
						break
					}
					if view == "wire" {
						reached++
						rec.Count("e2e:c10:wire_routes_compared", 1)
					} else {
						rec.Count("e2e:c10:listpath:adj-out", 1)
					}
					d := diff(gr, *expT[ti])
					if len(d) == 0 {
						break
					}
					// non-interference: does the view show what only the OTHER target's policy produces?
					if other != nil {
						var cross []string
						gf, of := gr.fields(), other.fields()
						for _, f := range d {
							if gf[f] == of[f] {
								cross = append(cross, f)
							}
						}
						if len(cross) > 0 {
							rec.Violation("e2e:c10:non-interference:"+view+":"+strings.Join(cross, "+"), fmt.Sprintf("%s's %s view shows in %v what only the other target's export policy produces: has %v, own model %v, other target's model %v", T, view, cross, gf, expT[ti].fields(), of), w(nil))
							break
						}
					}
					rec.Violation("e2e:c10:export:"+view+":attrs:"+strings.Join(d, "+")+":"+mode, fmt.Sprintf("%s's %s view differs from the model in %v: has %v, model %v", T, view, d, gr.fields(), expT[ti].fields()), w(nil))
				}
			}
		}
	}
	if reached > 0 {
		var ks []string
		for k := range shape {
			ks = append(ks, k)
		}
		sort.Strings(ks)
		rec.Count("e2e:c10:nontrivial_scenarios", 1)
		rec.Nontrivial("e2e-c10|" + vlib.Hash(strings.Join(ks, "|")))
	}
	if idx%101 == 0 {
		rec.Sample(wit(map[string]any{"unit": "e2e", "routes": len(sent), "routes_reaching_a_target": reached}))
	}
}

func e2eC10Uniq[T comparable](xs []T) []T {
	var out []T
	for _, x := range xs {
		dup := false
		for _, y := range out {
			dup = dup || x == y
		}
		if !dup {
			out = append(out, x)
		}
	}
	return out
}
