package server

// Shared helpers for connection-collision scenarios (RFC 4271 s6.8): the neighbour is not passive,
// gobgp dials through verifHooks.dial while the scripted peer connects as well, and the test wants
// BOTH events - the peer's OPEN on the accepted connection (recvChan) and the completed OPEN
// exchange of the dialled connection (fsm.outgoingConnCh) - to be pending when opensent() selects,
// so that either select branch resolves the collision. Two ways to park the FSM goroutine meanwhile:
//
//   simBlockConn     works on any tree: a surplus accepted connection whose Close() blocks; offered
//                    while the FSM is in OpenSent it is taken by `case conn := <-fsm.connCh` and the
//                    FSM goroutine sits in conn.Close() until Release().
//   simOpenSentGate  needs the yield point verifYield("opensent") (commit 0ed6a91): a yield hook that
//                    holds the FSM goroutine at the top of opensent()'s select loop while Hold() is
//                    in force. Hold() BEFORE the connection is offered, Release() after both OPENs
//                    have been written and synctest.Wait() returned.
//
// Users (C07 collision outcomes, C08 negotiation from the surviving connection's OPEN) keep their own
// scripts; only these primitives are shared. Add helpers with a sim prefix, do not change existing ones.

import (
	"net"
	"sync/atomic"
)

type simBlockConn struct {
	*simConn
	gate chan struct{}
}

// simNewBlockConn returns (gobgp side to be sent to n.acceptCh, speaker side).
func simNewBlockConn(local, remote string, rport uint16) (*simBlockConn, net.Conn) {
	g, mine := simPipe(local, remote, rport)
	return &simBlockConn{simConn: g.(*simConn), gate: make(chan struct{})}, mine
}

func (b *simBlockConn) Close() error {
	<-b.gate
	return b.simConn.Close()
}

// Release lets the goroutine blocked in Close() go on (idempotence is the caller's business: call once).
func (b *simBlockConn) Release() { close(b.gate) }

type simOpenSentGate struct {
	hold atomic.Pointer[chan struct{}]
	Hits atomic.Int64 // how often a goroutine was actually parked
}

// Yield is to be installed as verifHooks.yield (or called from the installed hook).
func (g *simOpenSentGate) Yield(point, peer string) {
	if point != "opensent" {
		return
	}
	if h := g.hold.Load(); h != nil {
		g.Hits.Add(1)
		<-*h
	}
}

func (g *simOpenSentGate) Hold() {
	h := make(chan struct{})
	g.hold.Store(&h)
}

func (g *simOpenSentGate) Release() {
	if h := g.hold.Swap(nil); h != nil {
		close(*h)
	}
}
