package server

// C06 — malformed UPDATEs are contained: never installed, answered per RFC 7606 / RFC 4271.
//
// Fault enumeration: base UPDATEs x fault catalogue x positions x pairs x {eBGP, iBGP, confederation}
// x treat-as-withdraw on/off; see c06_faults_test.go for the reference table, c06_l1_test.go and
// c06_l2_test.go for the two layers. Case index layout (a pure function of the tier):
//   [0, B)                       layer 1, base b: no penalty in every rotation of its attributes
//   [B, B+B*F)                   layer 1, (base, fault): every position x 6 sessions  (complete)
//   next P                       layer 1, fault pairs (quick: PRNG sample; thorough: all pairs x all bases)
//   next L2                      layer 2 sessions: every (fault, peer type, taw) once, every base per peer type, then PRNG singles / pairs

import (
	"fmt"
	"os"
	"testing"
	"testing/synctest"
	"time"

	"github.com/osrg/gobgp/v4/internal/verif/vlib"
)

func TestVerifC06(t *testing.T) {
	rec := vlib.Open("C06")
	defer rec.Close()
	faults := c06Catalogue()
	B, F := len(c06Bases), len(faults)
	nBase := B
	nSingle := B * F
	nPairs := vlib.Scale(5000, B*F*(F-1)/2)
	type l2spec struct {
		f   int // -1: base run
		bi  int
		pt  c06PeerType
		taw bool
	}
	var l2fixed []l2spec
	for fi, f := range faults {
		for _, pt := range []c06PeerType{c06EBGP, c06IBGP, c06Confed} {
			if f.peers&(1<<uint(pt)) == 0 {
				continue
			}
			l2fixed = append(l2fixed, l2spec{fi, -1, pt, true}, l2spec{fi, -1, pt, false})
		}
	}
	for bi := range c06Bases {
		for i, pt := range []c06PeerType{c06EBGP, c06IBGP, c06Confed} {
			l2fixed = append(l2fixed, l2spec{-1, bi, pt, (bi+i)%2 == 0})
		}
	}
	nL2 := vlib.Scale(len(l2fixed)+120, 20000)
	// layer 3 (pipelined sessions): every (fault, peer type) once with treat-as-withdraw alternating, every base once, then PRNG
	var l3fixed []l2spec
	for fi, f := range faults {
		for i, pt := range []c06PeerType{c06EBGP, c06IBGP, c06Confed} {
			if f.peers&(1<<uint(pt)) != 0 {
				l3fixed = append(l3fixed, l2spec{fi, -1, pt, (fi+i)%2 == 0})
			}
		}
	}
	for bi := range c06Bases {
		l3fixed = append(l3fixed, l2spec{-1, bi, c06PeerType(bi % 3), bi%2 == 0})
	}
	nL3 := vlib.Scale(len(l3fixed), 6000)
	// layer 4 (several sessions per neighbour, capabilities changing): every single-capability flip in both
	// directions x peer type x treat-as-withdraw, then PRNG plans of 2-3 sessions
	nL4fixed := 12 * 6
	nL4 := vlib.Scale(nL4fixed+48, 3000)
	total := nBase + nSingle + nPairs + nL2 + nL3 + nL4
	pool := &c06Pool{}
	defer pool.close()
	only := os.Getenv("VERIF_C06_ONLY") // debugging aid: "l1" or "l2" runs one layer's cases only
	vlib.Cases(total, func(idx int) {
		l4 := idx >= nBase+nSingle+nPairs+nL2+nL3
		l3 := idx >= nBase+nSingle+nPairs+nL2 && !l4
		if only == "l1" && idx >= nBase+nSingle+nPairs || only == "l2" && (idx < nBase+nSingle+nPairs || l3 || l4) || only == "l3" && !l3 || only == "l4" && !l4 {
			return
		}
		switch {
		case idx < nBase:
			rec.Mark(fmt.Sprintf("c06 l1 base %d", idx), false)
			c06L1Base(rec, pool, idx, idx)
		case idx < nBase+nSingle:
			k := idx - nBase
			rec.Mark(fmt.Sprintf("c06 l1 single base %d fault %s", k/F, faults[k%F].id), false)
			c06L1Single(rec, pool, idx, k/F, faults[k%F])
		case idx < nBase+nSingle+nPairs:
			k := idx - nBase - nSingle
			r := vlib.CaseRand("c06pair", idx)
			var bi, i, j int
			if vlib.Thorough() {
				// complete: k enumerates (base, i<j)
				bi = k % B
				p := k / B
				i, j = c06Unrank(p, F)
			} else {
				bi, i, j = r.IntN(B), r.IntN(F), r.IntN(F)
			}
			rec.Mark(fmt.Sprintf("c06 l1 pair base %d faults %s+%s", bi, faults[i].id, faults[j].id), false)
			c06L1Pair(rec, pool, idx, bi, faults[i], faults[j], r)
		case l4:
			k := idx - nBase - nSingle - nPairs - nL2 - nL3
			r := vlib.CaseRand("c06l4", idx)
			var plan []c06Sess
			if k < nL4fixed {
				plan = c06L4Plan(r, k%12, c06PeerType(k/12%3), k/36 == 0)
			} else {
				plan = c06L4Plan(r, -1, c06PeerType(r.IntN(3)), r.IntN(3) != 0)
			}
			var hs []string
			for _, s := range plan {
				hs = append(hs, s.caps())
			}
			rec.Mark(fmt.Sprintf("c06 l4 %s sessions %v", plan[0], hs), true)
			synctest.Test(t, func(t *testing.T) { c06L4Case(t, rec, idx, r, plan, faults) })
		case l3:
			k := idx - nBase - nSingle - nPairs - nL2
			r := vlib.CaseRand("c06l3", idx)
			var c *c06Case
			switch {
			case k < len(l3fixed) && l3fixed[k].f < 0:
				sp := l3fixed[k]
				c, _ = c06Make(3, c06Sess{pt: sp.pt, taw: sp.taw, addPath: c06Bases[sp.bi].addPath}, sp.bi, nil, nil)
			case k < len(l3fixed):
				sp := l3fixed[k]
				c = c06PickCase(r, 3, sp.pt, sp.taw, []*c06Fault{faults[sp.f]})
			default:
				c = c06PickCase(r, 3, c06PeerType(r.IntN(3)), r.IntN(2) == 0, []*c06Fault{faults[r.IntN(F)]})
			}
			if c == nil {
				rec.Count("l3_inapplicable", 1)
				return
			}
			c.pipe = &c06Pipe{Prelude: r.IntN(2) == 0, Hold: []uint16{0, 9}[r.IntN(2)]}
			if r.IntN(5) < 3 {
				c.pipe.HoldUp = time.Duration(1+r.IntN(5)) * time.Millisecond
			}
			rec.Mark(fmt.Sprintf("c06 l3 %s base %s faults %s pos %v pipe %+v", c.sess, c06Bases[c.base].name, c.faultIDs(), c.pos, *c.pipe), true)
			synctest.Test(t, func(t *testing.T) { c06L2Case(t, rec, idx, c, [2]c06Reaction{}, [2]bool{}) })
		default:
			k := idx - nBase - nSingle - nPairs
			r := vlib.CaseRand("c06l2", idx)
			var c *c06Case
			switch {
			case k < len(l2fixed) && l2fixed[k].f < 0:
				sp := l2fixed[k]
				c, _ = c06Make(2, c06Sess{pt: sp.pt, taw: sp.taw, addPath: c06Bases[sp.bi].addPath}, sp.bi, nil, nil)
			case k < len(l2fixed):
				sp := l2fixed[k]
				c = c06PickCase(r, 2, sp.pt, sp.taw, []*c06Fault{faults[sp.f]})
			default:
				pt, taw := c06PeerType(r.IntN(3)), r.IntN(4) != 0
				f1 := faults[r.IntN(F)]
				fs := []*c06Fault{f1}
				if r.IntN(3) != 0 {
					if f2 := faults[r.IntN(F)]; !c06Conflict(f1, f2) {
						fs = append(fs, f2)
					}
				}
				c = c06PickCase(r, 2, pt, taw, fs)
			}
			if c == nil {
				rec.Count("l2_inapplicable", 1)
				if k < len(l2fixed) {
					rec.Count("l2_inapplicable_fixed_"+faults[l2fixed[k].f].id, 1)
				}
				return
			}
			rec.Mark(fmt.Sprintf("c06 l2 %s base %s faults %s pos %v", c.sess, c06Bases[c.base].name, c.faultIDs(), c.pos), true)
			// for a pair, the two single-fault messages are run through layer 1 (outside the bubble) as the
			// reference points of the monotonicity relation
			var singles [2]c06Reaction
			var singleOK [2]bool
			if len(c.faults) == 2 {
				for i := range c.faults {
					sc, ok := c06Make(1, c.sess, c.base, []*c06Fault{c.faults[i]}, []int{c.pos[i]})
					if !ok || !sc.present() {
						c = nil
						break
					}
					var so *c06Obs
					if rec.Guard("c06:l1:"+c.faults[i].family(), func() any { return sc.witness(idx, nil) }, func() { so = pool.get(c.sess).run(sc) }) {
						c = nil
						break
					}
					singles[i] = sc.derive(so)
					singleOK[i] = c06Classify(c.sess, c.faults[i]).admits(singles[i])
				}
				if c == nil {
					rec.Count("l2_inapplicable", 1)
					return
				}
			}
			synctest.Test(t, func(t *testing.T) { c06L2Case(t, rec, idx, c, singles, singleOK) })
		}
	})
	if sh, _ := vlib.Shard(); sh == 0 {
		rec.Count("catalogue_entries", F)
		rec.Count("base_updates", B)
	}
}

// c06Unrank maps p in [0, F*(F-1)/2) to the p-th pair i<j.
func c06Unrank(p, F int) (int, int) {
	for i := 0; i < F; i++ {
		n := F - 1 - i
		if p < n {
			return i, i + 1 + p
		}
		p -= n
	}
	return 0, 1
}

func c06L2Case(t *testing.T, rec *vlib.Rec, idx int, c *c06Case, singles [2]c06Reaction, singleOK [2]bool) {
	o, ok := c06L2Session(t, rec, idx, c)
	if !ok {
		return
	}
	rec.Eval()
	rec.Count(fmt.Sprintf("l%d_sessions", c.layer), 1)
	if c.pipe != nil {
		rec.Count(fmt.Sprintf("l3_prelude_%v", c.pipe.Prelude), 1)
		rec.Count(fmt.Sprintf("l3_hold_%d", c.pipe.Hold), 1)
		rec.Count(fmt.Sprintf("l3_established_held_up_%v", c.pipe.HoldUp > 0), 1)
	}
	if len(c.faults) == 0 {
		rec.Count(fmt.Sprintf("l%d_base_sessions", c.layer), 1)
		c.judgeBase(rec, idx, o, "end to end")
		return
	}
	c06Count(rec, c)
	rec.Nontrivial(fmt.Sprintf("%d|%s|%d|%v|%s", c.layer, c.faultIDs(), c.base, c.pos, c.sess))
	got := c.judge(rec, idx, o)
	if len(c.faults) == 2 {
		rec.Count("l2_pair_sessions", 1)
		c06Mono(rec, idx, c, o, got, singles, singleOK)
	}
	if idx%13 == 0 {
		rec.Sample(c.witness(idx, o))
	}
}
