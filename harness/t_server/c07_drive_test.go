package server

// C07 driver: one gobgp daemon in a synctest bubble, one neighbour, a byte-level scripted speaker.
// After every event the driver waits for exact quiescence (synctest.Wait) and collects
//   - what gobgp wrote on each connection (type, NOTIFICATION code/subcode/data, virtual instant),
//   - whether gobgp closed a connection,
//   - the peer-state events of WatchEvent(WatchPeer()) with their virtual instants,
//   - ListPeer (session state, admin state, negotiated timers),
//   - ListPath(GLOBAL) and ListPath(ADJ_IN),
// and hands them to the set of c07Model states that are still consistent with the history.

import (
	"context"
	"encoding/hex"
	"fmt"
	"net"
	"net/netip"
	"sort"
	"strings"
	"sync"
	"testing"
	"testing/synctest"
	"time"

	"github.com/osrg/gobgp/v4/api"
	"github.com/osrg/gobgp/v4/internal/verif/vlib"
	"github.com/osrg/gobgp/v4/pkg/apiutil"
	"github.com/osrg/gobgp/v4/pkg/packet/bgp"
)

const (
	c07PeerAddr = "10.0.0.2"
	c07RouterID = "1.1.1.1"
	c07SpkID    = "2.2.2.2"
	c07MaxPfx   = 2
)

type c07Rx struct {
	At   int64
	Typ  uint8
	Code uint8
	Sub  uint8
	Data []byte
	Open *bgp.BGPOpen
}

func (r c07Rx) String() string {
	switch r.Typ {
	case bgp.BGP_MSG_NOTIFICATION:
		return fmt.Sprintf("NOTIFICATION %d/%d data=%s @%s", r.Code, r.Sub, hex.EncodeToString(r.Data), c07T(r.At))
	case bgp.BGP_MSG_OPEN:
		return "OPEN @" + c07T(r.At)
	case bgp.BGP_MSG_KEEPALIVE:
		return "KEEPALIVE @" + c07T(r.At)
	case bgp.BGP_MSG_UPDATE:
		return "UPDATE @" + c07T(r.At)
	case bgp.BGP_MSG_ROUTE_REFRESH:
		return "ROUTE-REFRESH @" + c07T(r.At)
	}
	return fmt.Sprintf("type%d @%s", r.Typ, c07T(r.At))
}

func c07T(ns int64) string {
	return fmt.Sprintf("%.3fs", float64(ns)/1e9)
}

type c07Conn struct {
	id       int
	dir      string // "in" (offered to gobgp's listener) or "out" (handed to gobgp's dialer)
	c        net.Conn
	mu       sync.Mutex
	rx       []c07Rx
	eof      bool
	eofAt    int64
	weClosed bool
	seen     int
	eofSeen  bool
	done     chan struct{}
}

func (c *c07Conn) reader(t0 time.Time) {
	defer close(c.done)
	for {
		hd, body, err := simReadMsgRaw(c.c)
		now := int64(time.Since(t0))
		c.mu.Lock()
		if err != nil {
			c.eof, c.eofAt = true, now
			c.mu.Unlock()
			return
		}
		r := c07Rx{At: now, Typ: hd.Type}
		if m, perr := bgp.ParseBGPBody(hd, body); perr == nil {
			switch b := m.Body.(type) {
			case *bgp.BGPNotification:
				r.Code, r.Sub, r.Data = b.ErrorCode, b.ErrorSubcode, append([]byte(nil), b.Data...)
			case *bgp.BGPOpen:
				r.Open = b
			}
		}
		c.rx = append(c.rx, r)
		c.mu.Unlock()
	}
}

func (c *c07Conn) isOpen() bool {
	c.mu.Lock()
	defer c.mu.Unlock()
	return !c.eof && !c.weClosed
}

func (c *c07Conn) closeByUs() {
	c.mu.Lock()
	c.weClosed = true
	c.mu.Unlock()
	c.c.Close()
}

// write sends b from its own goroutine (a net.Pipe write blocks until gobgp has read everything) and
// reports after quiescence whether gobgp consumed it.
func (c *c07Conn) write(b []byte) (consumed func() bool) {
	var mu sync.Mutex
	done := false
	go func() {
		c.c.Write(b)
		mu.Lock()
		done = true
		mu.Unlock()
	}()
	return func() bool {
		mu.Lock()
		defer mu.Unlock()
		return done
	}
}

type c07WatchEv struct {
	st  bgp.FSMState
	adm api.PeerState_AdminState
	at  int64
}

type c07Obs struct {
	msgs    []c07Rx
	extra   []c07Rx // UPDATE / ROUTE-REFRESH written by gobgp (not part of the comparison)
	closed  bool
	other   string
	trans   []c07XTr
	present bool
	st      c07St
	adm     c07Adm
	negHold int64
	ka      int64
	routes  int
	adjIn   int
	unread  bool
	// admin state carried by the last peer-state event of this step
	watchAdm    api.PeerState_AdminState
	watchAdmSet bool
}

func (o c07Obs) String() string {
	var ms []string
	for _, m := range o.msgs {
		ms = append(ms, m.String())
	}
	var ts []string
	for _, t := range o.trans {
		ts = append(ts, fmt.Sprintf("%s@%s", t.st, c07T(t.at)))
	}
	st := "absent"
	if o.present {
		st = fmt.Sprintf("%s/admin-%s", o.st, o.adm)
	}
	return fmt.Sprintf("msgs=[%s] closed-by-gobgp=%v transitions=[%s] listpeer=%s global-routes=%d adj-in=%d%s", strings.Join(ms, ", "), o.closed,
		strings.Join(ts, ", "), st, o.routes, o.adjIn, map[bool]string{true: " OTHER-CONN:" + o.other, false: ""}[o.other != ""])
}

// class is the low-cardinality shape of an observation used in generic violation keys.
func (o c07Obs) class() string {
	var ms []string
	for _, m := range o.msgs {
		switch m.Typ {
		case bgp.BGP_MSG_NOTIFICATION:
			ms = append(ms, fmt.Sprintf("N%d/%d", m.Code, m.Sub))
		case bgp.BGP_MSG_OPEN:
			ms = append(ms, "O")
		case bgp.BGP_MSG_KEEPALIVE:
			ms = append(ms, "K")
		}
	}
	if len(ms) > 4 {
		ms = append(ms[:2], ms[len(ms)-2:]...)
	}
	s := strings.Join(ms, ",")
	if o.closed {
		s += "+closed"
	}
	var ts []string
	for _, t := range o.trans {
		ts = append(ts, t.st.String())
	}
	if len(ts) > 4 {
		ts = ts[len(ts)-4:]
	}
	st := "absent"
	if o.present {
		st = o.st.String() + "/" + o.adm.String()
	}
	return fmt.Sprintf("msgs=%s;trans=%s;end=%s;routes=%d/%d", s, strings.Join(ts, ">"), st, o.routes, o.adjIn)
}

type c07H struct {
	t    *testing.T
	rec  *vlib.Rec
	idx  int
	desc string
	n    *simNet
	cf   c07Conf
	t0   time.Time

	active  bool
	peerAS  uint32
	spkID   string
	cur     *c07Conn
	conns   []*c07Conn
	port    uint16
	wcancel context.CancelFunc
	wmu     sync.Mutex
	wev     []c07WatchEv
	wseen   int
	lastSt  c07St

	models []c07M
	log    []string
	kinds  []string
	nTrans int
	dead   bool // a violation ended the comparison for this case
	// last ListPath results
	ribRoutes, ribAdjIn int
	softs               map[string]bool
}

func (h *c07H) logf(f string, a ...any) {
	s := fmt.Sprintf("[%s] ", c07T(int64(time.Since(h.t0)))) + fmt.Sprintf(f, a...)
	h.log = append(h.log, s)
	if simDebug {
		fmt.Println("C07DBG", s)
	}
}

func (h *c07H) witness() map[string]any {
	return map[string]any{"case": h.idx, "desc": h.desc, "ibgp": h.cf.ibgp, "gobgp_hold": h.cf.cfgHold, "speaker_hold": h.cf.spkHold, "history": append([]string(nil), h.log...)}
}

func (h *c07H) violation(key, what string) {
	h.rec.Violation(key, what, h.witness())
}

func c07FromFSM(s bgp.FSMState) (c07St, bool) {
	switch s {
	case bgp.BGP_FSM_IDLE:
		return c07Idle, true
	case bgp.BGP_FSM_ACTIVE:
		return c07Active, true
	case bgp.BGP_FSM_OPENSENT:
		return c07OpenSent, true
	case bgp.BGP_FSM_OPENCONFIRM:
		return c07OpenConfirm, true
	case bgp.BGP_FSM_ESTABLISHED:
		return c07Established, true
	}
	return c07Idle, false
}

func c07NewH(t *testing.T, rec *vlib.Rec, idx int, desc string, cf c07Conf, active bool, spkID string, extra func(p *api.Peer)) *c07H {
	h := &c07H{t: t, rec: rec, idx: idx, desc: desc, cf: cf, active: active, spkID: spkID, port: 41000, softs: map[string]bool{}}
	// two global families (ipv4/ipv6 unicast) instead of all: the tables of ~30 families dominate the cost of a bubble
	h.n = simStart(t, &api.Global{Asn: simLocalAS, RouterId: c07RouterID, Families: []uint32{0, 1}})
	h.t0 = time.Now()
	ctx, cancel := context.WithCancel(context.Background())
	h.wcancel = cancel
	err := h.n.s.WatchEvent(ctx, WatchEventMessageCallbacks{OnPeerUpdate: func(ev *apiutil.WatchEventMessage_PeerEvent, ts time.Time) {
		if ev.Type != apiutil.PEER_EVENT_STATE || ev.Peer.State.NeighborAddress.String() != c07PeerAddr {
			return
		}
		h.wmu.Lock()
		h.wev = append(h.wev, c07WatchEv{st: ev.Peer.State.SessionState, adm: ev.Peer.State.AdminState, at: int64(ts.Sub(h.t0))})
		h.wmu.Unlock()
	}}, WatchPeer())
	if err != nil {
		t.Fatalf("c07: WatchEvent: %v", err)
	}
	h.peerAS = 65001
	kind := simEBGP
	if cf.ibgp {
		h.peerAS, kind = simLocalAS, simIBGP
	}
	ps := simPeerSpec{Kind: kind, Addr: c07PeerAddr, AS: h.peerAS, ID: spkID, GobgpHold: uint64(cf.cfgHold), Extra: func(p *api.Peer) {
		p.Transport.PassiveMode = !active
		for _, af := range p.AfiSafis {
			af.PrefixLimits = &api.PrefixLimit{Family: af.Config.Family, MaxPrefixes: c07MaxPfx}
		}
		if extra != nil {
			extra(p)
		}
	}}
	if err := h.n.s.AddPeer(context.Background(), &api.AddPeerRequest{Peer: ps.apiPeer()}); err != nil {
		t.Fatalf("c07: AddPeer: %v", err)
	}
	h.models = []c07M{{st: c07Idle, adm: c07Up, idleAt: 0, idleHold: 0, holdAt: -1, kaAt: -1}}
	h.lastSt = c07Idle
	return h
}

func (h *c07H) finish() {
	for _, c := range h.conns {
		c.closeByUs()
	}
	h.wcancel()
	synctest.Wait()
	h.n.stop()
	synctest.Wait()
	for _, c := range h.conns {
		<-c.done
	}
}

func (h *c07H) newConn(dir string) (gside net.Conn, c *c07Conn) {
	h.port++
	g, mine := simPipe(simLocalAddr, c07PeerAddr, h.port)
	c = &c07Conn{id: len(h.conns), dir: dir, c: mine, done: make(chan struct{})}
	h.conns = append(h.conns, c)
	go c.reader(h.t0)
	return g, c
}

// ---------------------------------------------------------------- speaker messages

func (h *c07H) openBytes(ev c07Ev) []byte {
	as := h.peerAS
	id := h.spkID
	hold := uint16(h.cf.spkHold)
	switch ev {
	case c07EvOpenBadAS:
		as = 65099
	case c07EvOpenID0:
		id = "0.0.0.0"
	case c07EvOpenIDSelf:
		id = c07RouterID
	case c07EvOpenHold1:
		hold = 1
	case c07EvOpenHold2:
		hold = 2
	}
	caps := []bgp.ParameterCapabilityInterface{bgp.NewCapMultiProtocol(bgp.RF_IPv4_UC), bgp.NewCapFourOctetASNumber(as)}
	if h.cf.spkExt {
		caps = append(caps, bgp.NewCapExtendedMessage())
	}
	opts := []bgp.OptionParameterInterface{bgp.NewOptionParameterCapability(caps)}
	if ev == c07EvOpenUnsup {
		opts = append(opts, &bgp.OptionParameterUnknown{ParamType: 99, ParamLen: 2, Value: []byte{0, 0}})
	}
	m, err := bgp.NewBGPOpenMessage(uint16(as), hold, netip.MustParseAddr(id), opts)
	if err != nil {
		h.t.Fatalf("c07: build OPEN: %v", err)
	}
	b, err := m.Serialize()
	if err != nil {
		h.t.Fatalf("c07: serialize OPEN: %v", err)
	}
	switch ev {
	case c07EvOpenBadVer:
		b[19] = 5 // the largest version gobgp supports below the one bid is 4
	case c07EvOpenMalformed:
		// a Capabilities parameter whose length field runs past the Optional Parameters
		b = append(b[:28:28], 4, 2, 6, 1, 4)
		b[16], b[17] = 0, byte(len(b))
	case c07EvOpenTrunc:
		b = b[:c07TruncLen]
		b[16], b[17] = 0, c07TruncLen
	}
	return b
}

func c07Header(marker byte, length int, typ uint8) []byte {
	b := make([]byte, 19)
	for i := 0; i < 16; i++ {
		b[i] = marker
	}
	b[16], b[17], b[18] = byte(length>>8), byte(length), typ
	return b
}

// sizedUpdateBytes: a well-formed UPDATE for 10.1.0.0/24 of exactly total octets (padded with an
// unrecognised optional transitive attribute).
func (h *c07H) sizedUpdateBytes(total int) []byte {
	base := h.updateBytes("10.1.0.0/24")
	pad := total - len(base) - 4 // flags, type, 2-octet length
	if pad < 256 {
		h.t.Fatalf("c07: sized UPDATE of %d octets is too small", total)
	}
	attr := append([]byte{0xd0, 250, byte(pad >> 8), byte(pad)}, make([]byte, pad)...)
	// header(19) + withdrawn length(2) + total path attribute length(2) + attributes + NLRI(4)
	nlri := base[len(base)-4:]
	b := append(append(append([]byte(nil), base[:len(base)-4]...), attr...), nlri...)
	alen := int(b[21])<<8 | int(b[22])
	alen += len(attr)
	b[21], b[22] = byte(alen>>8), byte(alen)
	b[16], b[17] = byte(len(b)>>8), byte(len(b))
	if len(b) != total {
		h.t.Fatalf("c07: sized UPDATE has %d octets, want %d", len(b), total)
	}
	return b
}

func (h *c07H) updateBytes(prefixes ...string) []byte {
	var params []bgp.AsPathParamInterface
	if !h.cf.ibgp {
		params = append(params, bgp.NewAs4PathParam(bgp.BGP_ASPATH_ATTR_TYPE_SEQ, []uint32{h.peerAS}))
	}
	nh, _ := bgp.NewPathAttributeNextHop(netip.MustParseAddr(c07PeerAddr))
	attrs := []bgp.PathAttributeInterface{bgp.NewPathAttributeOrigin(0), bgp.NewPathAttributeAsPath(params), nh}
	if h.cf.ibgp {
		attrs = append(attrs, bgp.NewPathAttributeLocalPref(100))
	}
	var nlri []bgp.PathNLRI
	for _, p := range prefixes {
		nl, _ := bgp.NewIPAddrPrefix(netip.MustParsePrefix(p))
		nlri = append(nlri, bgp.PathNLRI{NLRI: nl})
	}
	b, err := bgp.NewBGPUpdateMessage(nil, attrs, nlri).Serialize()
	if err != nil {
		h.t.Fatalf("c07: serialize UPDATE: %v", err)
	}
	return b
}

func (h *c07H) msgBytes(ev c07Ev) []byte {
	switch {
	case ev.isOpen():
		return h.openBytes(ev)
	case ev.bigLen() > 0:
		return h.sizedUpdateBytes(ev.bigLen())
	}
	switch ev {
	case c07EvKeepalive:
		return c07Header(0xff, 19, bgp.BGP_MSG_KEEPALIVE)
	case c07EvUpdate:
		return h.updateBytes("10.1.0.0/24")
	case c07EvPfxLimit:
		return h.updateBytes("10.9.0.0/24", "10.9.1.0/24", "10.9.2.0/24")
	case c07EvRefresh:
		b, _ := bgp.NewBGPRouteRefreshMessage(1, 0, 1).Serialize()
		return b
	case c07EvNotif:
		b, _ := bgp.NewBGPNotificationMessage(6, 2, nil).Serialize()
		return b
	case c07EvGMarker:
		return c07Header(0x00, 19, bgp.BGP_MSG_KEEPALIVE)
	case c07EvGShort:
		return c07Header(0xff, c07ShortLen, bgp.BGP_MSG_KEEPALIVE)
	case c07EvGLong:
		return c07Header(0xff, c07LongLen, bgp.BGP_MSG_UPDATE)
	case c07EvGType:
		return c07Header(0xff, 19, c07BadType)
	}
	panic("c07: no bytes for " + ev.String())
}

// ---------------------------------------------------------------- observation

// observe collects everything gobgp did since the previous observation. The two ListPath calls build a
// fresh table each (about a millisecond), so they are repeated only after steps that can change a RIB:
// a routing message was sent, a session state changed, or rib is forced (first and last step of a case).
func (h *c07H) observe(target *c07Conn, rib bool) c07Obs {
	var o c07Obs
	for _, c := range h.conns {
		c.mu.Lock()
		fresh := c.rx[c.seen:]
		c.seen = len(c.rx)
		closed := c.eof && !c.eofSeen && !c.weClosed
		if c.eof {
			c.eofSeen = true
		}
		c.mu.Unlock()
		if c == target {
			for _, r := range fresh {
				switch r.Typ {
				case bgp.BGP_MSG_UPDATE, bgp.BGP_MSG_ROUTE_REFRESH:
					o.extra = append(o.extra, r)
				default:
					o.msgs = append(o.msgs, r)
				}
			}
			o.closed = closed
			continue
		}
		for _, r := range fresh {
			o.other += fmt.Sprintf("conn%d(%s):%s ", c.id, c.dir, r)
		}
		if closed {
			o.other += fmt.Sprintf("conn%d(%s):closed ", c.id, c.dir)
		}
	}
	h.wmu.Lock()
	for _, w := range h.wev[h.wseen:] {
		st, ok := c07FromFSM(w.st)
		if !ok {
			h.violation("c07:edge:reported-state-"+w.st.String(), fmt.Sprintf("WatchEvent reported session state %s, which gobgp's state machine does not have", w.st))
		}
		o.trans = append(o.trans, c07XTr{st, w.at})
		o.watchAdm, o.watchAdmSet = w.adm, true
	}
	h.wseen = len(h.wev)
	h.wmu.Unlock()
	h.n.s.ListPeer(context.Background(), &api.ListPeerRequest{Address: c07PeerAddr}, func(p *api.Peer) {
		o.present = true
		switch p.State.SessionState {
		case api.PeerState_SESSION_STATE_IDLE:
			o.st = c07Idle
		case api.PeerState_SESSION_STATE_ACTIVE:
			o.st = c07Active
		case api.PeerState_SESSION_STATE_OPENSENT:
			o.st = c07OpenSent
		case api.PeerState_SESSION_STATE_OPENCONFIRM:
			o.st = c07OpenConfirm
		case api.PeerState_SESSION_STATE_ESTABLISHED:
			o.st = c07Established
		default:
			o.st = c07Deleted
			h.violation("c07:reported-state:"+p.State.SessionState.String(), "ListPeer reported session state "+p.State.SessionState.String())
		}
		switch p.State.AdminState {
		case api.PeerState_ADMIN_STATE_UP:
			o.adm = c07Up
		case api.PeerState_ADMIN_STATE_DOWN:
			o.adm = c07Down
		case api.PeerState_ADMIN_STATE_PFX_CT:
			o.adm = c07PfxCt
		}
		if p.Timers != nil && p.Timers.State != nil {
			o.negHold = int64(p.Timers.State.NegotiatedHoldTime)
			o.ka = int64(p.Timers.State.KeepaliveInterval)
		}
	})
	if rib || len(o.trans) > 0 {
		h.n.s.ListPath(apiutil.ListPathRequest{TableType: api.TableType_TABLE_TYPE_GLOBAL, Family: bgp.RF_IPv4_UC}, func(_ bgp.NLRI, paths []*apiutil.Path) {
			o.routes += len(paths)
		})
		h.n.s.ListPath(apiutil.ListPathRequest{TableType: api.TableType_TABLE_TYPE_ADJ_IN, Name: c07PeerAddr, Family: bgp.RF_IPv4_UC}, func(_ bgp.NLRI, paths []*apiutil.Path) {
			o.adjIn += len(paths)
		})
		h.ribRoutes, h.ribAdjIn = o.routes, o.adjIn
		h.rec.Count("rib_listings", 1)
	} else {
		o.routes, o.adjIn = h.ribRoutes, h.ribAdjIn
	}
	return o
}

var c07Edges = map[[2]c07St]bool{
	{c07Idle, c07Active}: true, {c07Active, c07OpenSent}: true, {c07OpenSent, c07OpenConfirm}: true, {c07OpenConfirm, c07Established}: true,
	{c07Active, c07Idle}: true, {c07OpenSent, c07Idle}: true, {c07OpenConfirm, c07Idle}: true, {c07Established, c07Idle}: true,
}

// edges checks every observed transition against the allowed edges (independent of the model).
func (h *c07H) edges(o c07Obs, deleting bool) {
	for _, t := range o.trans {
		from := h.lastSt
		h.lastSt = t.st
		h.nTrans++
		h.rec.Count(fmt.Sprintf("edge_%s->%s", from, t.st), 1)
		if c07Edges[[2]c07St{from, t.st}] {
			continue
		}
		if from == c07Idle && t.st == c07Idle && deleting {
			continue // DeletePeer announces the removal of an idle peer as "Idle"
		}
		h.violation(fmt.Sprintf("c07:edge:%s->%s", from, t.st), fmt.Sprintf("observed transition %s -> %s at %s is not an edge of Idle->Active->OpenSent->OpenConfirm->Established / back to Idle", from, t.st, c07T(t.at)))
	}
}

// ---------------------------------------------------------------- comparison with the model

func c07MatchMsg(x c07XMsg, r c07Rx) (ok bool, soft string) {
	if x.typ != r.Typ || x.at != r.At {
		return false, ""
	}
	if x.typ != bgp.BGP_MSG_NOTIFICATION {
		return true, ""
	}
	if len(x.codes) > 0 {
		for _, c := range x.codes {
			if c == r.Code {
				return true, ""
			}
		}
		return false, ""
	}
	if x.code != r.Code {
		return false, ""
	}
	for _, s := range x.subs {
		if s == r.Sub {
			if x.dataMust && string(x.data) != string(r.Data) {
				return true, fmt.Sprintf("notification-%d/%d-data", r.Code, r.Sub)
			}
			return true, ""
		}
	}
	return false, ""
}

func c07Match(out c07Out, o c07Obs) (ok bool, softs []string) {
	if o.other != "" || o.unread {
		return false, nil
	}
	i := 0
	for _, x := range out.msgs {
		if i < len(o.msgs) {
			if ok, soft := c07MatchMsg(x, o.msgs[i]); ok {
				if soft != "" {
					softs = append(softs, soft)
				}
				i++
				continue
			}
		}
		if !x.optional {
			return false, nil
		}
	}
	if i != len(o.msgs) || out.closed != o.closed || len(out.trans) != len(o.trans) {
		return false, nil
	}
	for j, t := range out.trans {
		if t != o.trans[j] {
			return false, nil
		}
	}
	n := out.next
	if o.present != (n.st != c07Deleted) {
		return false, nil
	}
	if o.present && (o.st != n.st || o.adm != n.adm) {
		return false, nil
	}
	if o.routes != n.routes || o.adjIn != n.routes {
		return false, nil
	}
	return true, softs
}

func (x c07XMsg) String() string {
	opt := ""
	if x.optional {
		opt = "?"
	}
	switch x.typ {
	case bgp.BGP_MSG_NOTIFICATION:
		if len(x.codes) > 0 {
			return fmt.Sprintf("NOTIFICATION code in %v @%s%s", x.codes, c07T(x.at), opt)
		}
		d := ""
		if x.dataMust {
			d = " data=" + hex.EncodeToString(x.data)
		}
		return fmt.Sprintf("NOTIFICATION %d/%v%s @%s%s", x.code, x.subs, d, c07T(x.at), opt)
	case bgp.BGP_MSG_OPEN:
		return "OPEN @" + c07T(x.at)
	}
	return "KEEPALIVE @" + c07T(x.at)
}

func (out c07Out) String() string {
	var ms, ts []string
	for _, m := range out.msgs {
		ms = append(ms, m.String())
	}
	for _, t := range out.trans {
		ts = append(ts, fmt.Sprintf("%s@%s", t.st, c07T(t.at)))
	}
	st := "absent"
	if out.next.st != c07Deleted {
		st = fmt.Sprintf("%s/admin-%s", out.next.st, out.next.adm)
	}
	d := ""
	if out.dev != "" {
		d = " [deviation " + out.dev + "]"
	}
	return fmt.Sprintf("msgs=[%s] closed-by-gobgp=%v transitions=[%s] listpeer=%s routes=%d%s", strings.Join(ms, ", "), out.closed, strings.Join(ts, ", "), st, out.next.routes, d)
}

// c07DevMinus removes the keys of sub from set (both "|"-joined); ok is false if set lacks one of them.
func c07DevMinus(set, sub string) (rest string, ok bool) {
	have := map[string]bool{}
	for _, k := range strings.Split(set, "|") {
		have[k] = true
	}
	for _, k := range strings.Split(sub, "|") {
		if !have[k] {
			return "", false
		}
		delete(have, k)
	}
	var ks []string
	for k := range have {
		ks = append(ks, k)
	}
	sort.Strings(ks)
	return strings.Join(ks, "|"), true
}

func c07ModelKey(m c07M) string { return fmt.Sprintf("%v", m) }

// check advances the set of model states over event ev (lasting dur) and filters it by observation o.
func (h *c07H) check(ev c07Ev, dur int64, o c07Obs) {
	if h.dead {
		return
	}
	canon := h.models[0]
	next := map[c07M]bool{}
	var softs []string
	var admissible []string
	for _, m := range h.models {
		for _, out := range m.step(&h.cf, ev, dur) {
			if out.dev == "" && m.pend == "" && len(admissible) < 6 {
				admissible = append(admissible, out.String())
			}
			ok, sf := c07Match(out, o)
			if !ok {
				continue
			}
			n := out.next
			n.pend = c07JoinDev(m.pend, out.dev)
			if !next[n] && n.pend == "" {
				softs = append(softs, sf...)
			}
			next[n] = true
		}
	}
	if len(next) == 0 {
		key := fmt.Sprintf("c07:%s:%s:unexpected:%s", canon.st, ev, o.class())
		h.violation(key, fmt.Sprintf("in model state %s (admin %s) event %s: gobgp showed {%s}; the RFC 4271 model admits {%s}", canon.st, canon.adm, ev, o, strings.Join(admissible, " | ")))
		h.dead = true
		return
	}
	var list []c07M
	clean := false
	for m := range next {
		list = append(list, m)
		if m.pend == "" {
			clean = true
		}
	}
	if !clean {
		// every state consistent with the observations rests on a deviation: report the smallest set
		best := ""
		for i, m := range list {
			if i == 0 || len(m.pend) < len(best) || (len(m.pend) == len(best) && m.pend < best) {
				best = m.pend
			}
		}
		for _, k := range strings.Split(best, "|") {
			h.violation(k, fmt.Sprintf("model state %s, event %s: gobgp showed {%s}; the RFC 4271 model admits {%s}", canon.st, ev, o, strings.Join(admissible, " | ")))
		}
		var kept []c07M
		seen := map[c07M]bool{}
		for _, m := range list {
			rest, ok := c07DevMinus(m.pend, best)
			if !ok {
				continue // rests on a different explanation than the one reported
			}
			m.pend = rest
			if !seen[m] {
				seen[m] = true
				kept = append(kept, m)
			}
		}
		list = kept
		// soft findings of the reported branch
		for _, m := range h.models {
			for _, out := range m.step(&h.cf, ev, dur) {
				if ok, sf := c07Match(out, o); ok && c07JoinDev(m.pend, out.dev) == best {
					softs = append(softs, sf...)
				}
			}
		}
	}
	sort.Slice(list, func(i, j int) bool {
		if (list[i].pend == "") != (list[j].pend == "") {
			return list[i].pend == ""
		}
		return c07ModelKey(list[i]) < c07ModelKey(list[j])
	})
	h.models = list
	for _, s := range softs {
		k := c07DevKey(canon.st, ev, s)
		if ev.isGarbage() {
			k = fmt.Sprintf("c07:*:%s:%s", ev, s) // the header is checked by the same code in every state
		}
		if !h.softs[k] {
			h.softs[k] = true
			h.violation(k, fmt.Sprintf("model state %s, event %s: the NOTIFICATION's Data field is not what RFC 4271 section 6 demands: gobgp showed {%s}; admissible {%s}", canon.st, ev, o, strings.Join(admissible, " | ")))
		}
	}
	// the two API views of the admin state must agree at quiescence
	if o.present && o.watchAdmSet {
		want := map[c07Adm]api.PeerState_AdminState{c07Up: api.PeerState_ADMIN_STATE_UP, c07Down: api.PeerState_ADMIN_STATE_DOWN, c07PfxCt: api.PeerState_ADMIN_STATE_PFX_CT}[o.adm]
		if o.watchAdm != want {
			h.violation("c07:reported-admin-state:watchevent-vs-listpeer", fmt.Sprintf("model state %s, event %s: the last peer-state event carries admin state %s, ListPeer reports %s", canon.st, ev, o.watchAdm, want))
		}
	}
	// reported timers of an established session
	if m := h.models[0]; m.st == c07Established && o.present && o.st == c07Established {
		if o.negHold != m.negHold || (m.negHold > 0 && o.ka != m.kaIv) {
			h.violation("c07:established:reported-timers", fmt.Sprintf("ListPeer reports negotiated hold %d s / keepalive %d s; min(configured %d, received %d) = %d s, keepalive %d s",
				o.negHold, o.ka, h.cf.cfgHold, h.cf.spkHold, m.negHold, m.kaIv))
		}
	}
}

// ---------------------------------------------------------------- events

// applicable reports whether ev can be applied now, and the length of a silence event.
func (h *c07H) applicable(ev c07Ev) (bool, int64) {
	if ev.isMsg() {
		return h.cur != nil && h.cur.isOpen(), 0
	}
	if !ev.isSilence() {
		return true, 0
	}
	m := h.models[0]
	next, hold := m.deadlines()
	target := next
	if ev >= c07EvSilHoldBelow {
		target = hold
	}
	if target < 0 {
		if ev == c07EvSilNextAt {
			return true, 7 * c07Sec
		}
		return false, 0
	}
	d := target - m.now
	switch ev {
	case c07EvSilNextBelow, c07EvSilHoldBelow:
		d -= int64(time.Millisecond)
	case c07EvSilNextAbove, c07EvSilHoldAbove:
		d += int64(time.Millisecond)
	}
	if d <= 0 {
		return false, 0
	}
	return true, d
}

// apply performs ev, waits for quiescence, observes and checks. It returns false if ev was not applicable.
func (h *c07H) apply(ev c07Ev) bool {
	ok, dur := h.applicable(ev)
	if !ok {
		return false
	}
	ctx := context.Background()
	target := h.cur
	var consumed func() bool
	pairState := h.models[0].st
	h.logf("event %s (model state %s)", ev, pairState)
	switch {
	case ev == c07EvConnect:
		g, c := h.newConn("in")
		target = c
		h.n.acceptCh <- g
	case ev == c07EvClose:
		h.cur.closeByUs()
	case ev.isMsg():
		consumed = h.cur.write(h.msgBytes(ev))
	case ev.isSilence():
		time.Sleep(time.Duration(dur))
	case ev == c07EvEnable:
		h.n.s.EnablePeer(ctx, &api.EnablePeerRequest{Address: c07PeerAddr})
	case ev == c07EvDisable:
		h.n.s.DisablePeer(ctx, &api.DisablePeerRequest{Address: c07PeerAddr, Communication: "c07"})
	case ev == c07EvShutdown:
		h.n.s.ShutdownPeer(ctx, &api.ShutdownPeerRequest{Address: c07PeerAddr, Communication: "c07"})
	case ev == c07EvResetHard:
		h.n.s.ResetPeer(ctx, &api.ResetPeerRequest{Address: c07PeerAddr, Communication: "c07"})
	case ev == c07EvResetSoft:
		h.n.s.ResetPeer(ctx, &api.ResetPeerRequest{Address: c07PeerAddr, Soft: true, Direction: api.ResetPeerRequest_DIRECTION_BOTH})
	case ev == c07EvDelete:
		h.n.s.DeletePeer(ctx, &api.DeletePeerRequest{Address: c07PeerAddr})
	}
	synctest.Wait()
	o := h.observe(target, ev == c07EvUpdate || ev == c07EvPfxLimit || ev == c07EvRefresh || ev == c07EvResetSoft || ev.bigLen() > 0)
	if consumed != nil && !consumed() {
		o.unread = true
	}
	h.logf("  observed %s", o)
	h.kinds = append(h.kinds, ev.String())
	h.rec.Count("ev_"+ev.String(), 1)
	h.rec.Count(fmt.Sprintf("pair_%s_%s", pairState, ev), 1)
	for _, m := range o.msgs {
		if m.Typ == bgp.BGP_MSG_NOTIFICATION {
			h.rec.Count(fmt.Sprintf("notif_%d/%d", m.Code, m.Sub), 1)
		}
	}
	h.rec.Count("steps", 1)
	h.edges(o, ev == c07EvDelete)
	if ev == c07EvConnect && len(o.msgs) > 0 && o.msgs[0].Typ == bgp.BGP_MSG_OPEN {
		h.checkOpen(o.msgs[0])
	}
	h.check(ev, dur, o)
	// connection bookkeeping
	switch {
	case ev == c07EvConnect:
		if target.isOpen() && h.cur == nil {
			h.cur = target
		} else if target.isOpen() {
			target.closeByUs() // a second connection gobgp neither used nor closed (reported by the comparison)
		}
	case ev == c07EvClose:
		h.cur = nil
	}
	if h.cur != nil && !h.cur.isOpen() {
		h.cur = nil
	}
	return true
}

// checkOpen: the OPEN gobgp sends must carry version 4, its AS, its configured hold time and its BGP identifier.
func (h *c07H) checkOpen(r c07Rx) {
	op := r.Open
	if op == nil {
		h.violation("c07:open-sent:unparsable", "the OPEN gobgp sent does not parse")
		return
	}
	if op.Version != 4 || getASN(op) != simLocalAS || int64(op.HoldTime) != h.cf.cfgHold || op.ID.String() != c07RouterID {
		h.violation("c07:open-sent:content", fmt.Sprintf("gobgp's OPEN: version %d AS %d hold %d id %s; configured AS %d hold %d id %s", op.Version, getASN(op), op.HoldTime, op.ID, simLocalAS, h.cf.cfgHold, c07RouterID))
	}
}
