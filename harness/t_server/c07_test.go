package server

// C07 — peering sessions follow the RFC 4271 state machine, timers included.
//
// Fault enumeration over bounded event sequences in virtual time: every sequence of up to three
// events of the 33-symbol alphabet applied to a passive peer from each of the start states Active,
// Idle (idle-hold running), OpenSent, OpenConfirm and Established, PRNG walks of 4-12 events over random configurations, and the active-peer /
// connection-collision scenarios (c07_collision_test.go). Oracle: c07Model (c07_model_test.go).

import (
	"fmt"
	"math/rand/v2"
	"strings"
	"testing"
	"testing/synctest"

	"github.com/osrg/gobgp/v4/internal/verif/vlib"
)

const c07N = int(c07NumEv)

var c07Starts = []struct {
	name string
	seq  []c07Ev
}{
	{"active", nil},
	{"idle", []c07Ev{c07EvConnect, c07EvClose}},
	{"opensent", []c07Ev{c07EvConnect}},
	{"openconfirm", []c07Ev{c07EvConnect, c07EvOpenValid}},
	{"established", []c07Ev{c07EvConnect, c07EvOpenValid, c07EvKeepalive}},
}

type c07Case struct {
	kind  string // "exh", "walk", "coll"
	start int
	seq   []c07Ev
	sub   int // walk / collision index
}

func c07Pow(n, k int) int {
	p := 1
	for i := 0; i < k; i++ {
		p *= n
	}
	return p
}

func c07SeqCount(maxLen int) int {
	t := 0
	for l := 1; l <= maxLen; l++ {
		t += c07Pow(c07N, l)
	}
	return t
}

func c07SeqOf(i int) []c07Ev {
	for l := 1; ; l++ {
		p := c07Pow(c07N, l)
		if i < p {
			seq := make([]c07Ev, l)
			for k := l - 1; k >= 0; k-- {
				seq[k] = c07Ev(i % c07N)
				i /= c07N
			}
			return seq
		}
		i -= p
	}
}

// layout of the case indices of a tier: the exhaustive blocks are the same in both tiers
type c07Layout struct {
	maxLen int // all sequences up to this length from every start state
	walks  int
}

func c07TierLayout() c07Layout {
	if vlib.Thorough() {
		return c07Layout{maxLen: 3, walks: 300000}
	}
	return c07Layout{maxLen: 3, walks: 4000}
}

func (l c07Layout) total() int {
	return len(c07Starts)*c07SeqCount(l.maxLen) + l.walks + c07CollisionCases() + c07MultiCases()
}

func (l c07Layout) decode(idx int) c07Case {
	n := c07SeqCount(l.maxLen)
	if idx < len(c07Starts)*n {
		return c07Case{kind: "exh", start: idx / n, seq: c07SeqOf(idx % n)}
	}
	idx -= len(c07Starts) * n
	if idx < l.walks {
		return c07Case{kind: "walk", sub: idx}
	}
	idx -= l.walks
	if idx < c07CollisionCases() {
		return c07Case{kind: "coll", sub: idx}
	}
	return c07Case{kind: "multi", sub: idx - c07CollisionCases()}
}

// c07Viable is a model-only dry run: it reports false only if some event of the sequence cannot be
// applied in any world the model admits (a message event with no connection); such a sequence
// behaves like the shorter sequence without that event, which is enumerated as well.
func c07Viable(cf *c07Conf, seq []c07Ev) bool {
	states := map[c07M]bool{{st: c07Idle, adm: c07Up, idleAt: 0, idleHold: 0, holdAt: -1, kaAt: -1}: true}
	adv := func(ev c07Ev, dur int64) {
		next := map[c07M]bool{}
		for m := range states {
			for _, o := range m.step(cf, ev, dur) {
				n := o.next
				n.pend = ""
				next[n] = true
			}
		}
		states = next
	}
	adv(c07EvSilNextAt, 0)
	for _, ev := range seq {
		if ev.isSilence() {
			return true // durations depend on the run; stop pruning here
		}
		if ev.isMsg() {
			any := false
			for m := range states {
				if m.conn {
					any = true
				}
			}
			if !any {
				return false
			}
		}
		adv(ev, 0)
	}
	return true
}

func c07SeqString(seq []c07Ev) string {
	var s []string
	for _, e := range seq {
		s = append(s, e.String())
	}
	return strings.Join(s, ",")
}

func TestVerifC07(t *testing.T) {
	rec := vlib.Open("C07")
	defer rec.Close()
	lay := c07TierLayout()
	vlib.Cases(lay.total(), func(idx int) {
		c := lay.decode(idx)
		switch c.kind {
		case "exh":
			cf := c07Conf{ibgp: true, cfgHold: 30, spkHold: 9}
			full := append(append([]c07Ev(nil), c07Starts[c.start].seq...), c.seq...)
			if !c07Viable(&cf, full) {
				rec.Count("sequences_subsumed_by_shorter", 1)
				return
			}
			desc := fmt.Sprintf("exh start=%s seq=%s", c07Starts[c.start].name, c07SeqString(c.seq))
			rec.Mark(fmt.Sprintf("c07 case %d %s", idx, desc), false)
			synctest.Test(t, func(t *testing.T) { c07RunSeq(t, rec, idx, desc, cf, len(c07Starts[c.start].seq), full, nil) })
			rec.Count(fmt.Sprintf("cases_exhaustive_%s_len%d", c07Starts[c.start].name, len(c.seq)), 1)
		case "walk":
			r := vlib.CaseRand("c07walk", c.sub)
			cf := c07WalkConf(r)
			start := r.IntN(len(c07Starts))
			desc := fmt.Sprintf("walk %d start=%s ibgp=%v hold=%d/%d", c.sub, c07Starts[start].name, cf.ibgp, cf.cfgHold, cf.spkHold)
			rec.Mark(fmt.Sprintf("c07 case %d %s", idx, desc), false)
			synctest.Test(t, func(t *testing.T) {
				c07RunSeq(t, rec, idx, desc, cf, len(c07Starts[start].seq), c07Starts[start].seq, r)
			})
			rec.Count("cases_walk", 1)
		case "coll":
			rec.Mark(fmt.Sprintf("c07 case %d collision %d", idx, c.sub), false)
			synctest.Test(t, func(t *testing.T) { c07RunCollision(t, rec, idx, c.sub) })
			rec.Count("cases_active_peer", 1)
		case "multi":
			rec.Mark(fmt.Sprintf("c07 case %d multi-session %d", idx, c.sub), false)
			synctest.Test(t, func(t *testing.T) { c07RunMulti(t, rec, idx, c.sub) })
			rec.Count("cases_multi_session", 1)
		}
	})
}

func c07WalkConf(r *rand.Rand) c07Conf {
	holds := [][2]int64{{30, 9}, {9, 30}, {90, 90}, {30, 0}, {12, 12}, {90, 3}, {30, 10}}
	h := holds[r.IntN(len(holds))]
	return c07Conf{ibgp: r.IntN(2) == 0, cfgHold: h[0], spkHold: h[1]}
}

// c07RunSeq runs one case: the first nPrefix events bring the peer into the start state; with a PRNG
// the sequence is extended by a walk of 4-12 applicable events.
func c07RunSeq(t *testing.T, rec *vlib.Rec, idx int, desc string, cf c07Conf, nPrefix int, seq []c07Ev, walk *rand.Rand) {
	h := c07NewH(t, rec, idx, desc, cf, false, c07SpkID, nil)
	defer h.finish()
	rec.Eval()
	synctest.Wait()
	o := h.observe(nil, true)
	h.logf("peer added: %s", o)
	h.edges(o, false)
	h.check(c07EvSilNextAt, 0, o)
	complete := true
	for i, ev := range seq {
		if h.dead {
			break
		}
		if !h.apply(ev) {
			complete = false
			if i < nPrefix {
				rec.Count("start_state_not_reached", 1)
			} else {
				rec.Count("sequences_cut_at_inapplicable_event", 1)
			}
			break
		}
	}
	if walk != nil && complete && !h.dead {
		n := 4 + walk.IntN(9)
		for i := 0; i < n && !h.dead; i++ {
			done := false
			for try := 0; try < 30 && !done; try++ {
				done = h.apply(c07Ev(walk.IntN(c07N)))
			}
		}
	}
	if !h.dead {
		// closing observation: the RIBs once more, whatever the last event was
		synctest.Wait()
		if o := h.observe(nil, true); o.routes != h.models[0].routes || o.adjIn != h.models[0].routes || len(o.trans) > 0 || o.other != "" {
			h.violation("c07:end-of-case:rib-or-late-activity", fmt.Sprintf("at the end of the case: %s; model expects %d route(s) and no further activity", o, h.models[0].routes))
		}
	}
	if h.nTrans >= 2 {
		key := desc
		if walk != nil {
			key = fmt.Sprintf("walk ibgp=%v hold=%d/%d %s", cf.ibgp, cf.cfgHold, cf.spkHold, strings.Join(h.kinds, ","))
		}
		rec.Nontrivial(key)
	}
	rec.Count("transitions_observed", h.nTrans)
	if idx%4001 == 0 {
		w := h.witness()
		if hist := w["history"].([]string); len(hist) > 30 {
			w["history"] = hist[:30]
		}
		rec.Sample(w)
	}
}
