# registry entry for C19 (loaded by /verif/registry.py; PROPS is predefined)
# C19 (function-level half): coverage counters that must be non-zero, one per message type / subtype / PDU /
# command body / flavour the property quantifies over (a type with zero hits makes the run inconclusive).
_C19_MRT = ["TABLE_DUMPv2/PEER_INDEX_TABLE", "TABLE_DUMPv2/GEO_PEER_TABLE", "TABLE_DUMPv2/RIB_GENERIC", "TABLE_DUMPv2/RIB_GENERIC_ADDPATH"] + \
    ["TABLE_DUMPv2/RIB_%s_%s%s" % (a, c, x) for a in ("IPV4", "IPV6") for c in ("UNICAST", "MULTICAST") for x in ("", "_ADDPATH")] + \
    ["BGP4MP/STATE_CHANGE", "BGP4MP/STATE_CHANGE_AS4"] + \
    ["BGP4MP/MESSAGE%s%s%s" % (a, l, x) for a in ("", "_AS4") for l in ("", "_LOCAL") for x in ("", "_ADDPATH")]
_C19_FLAVOURS = ["v2/default", "v3/default", "v4/default", "v5/default", "v5/frr4", "v5/frr5", "v5/cumulus", "v5/cumulus-literal", "v6/default"] + \
    ["v6/frr%s" % v for v in ("6", "7", "7.1", "7.2", "7.3", "7.4", "7.5", "8", "8.1", "8.2")]
_C19_ZBODIES = ["unknownBody", "HelloBody", "redistributeBody", "interfaceUpdateBody", "interfaceAddressUpdateBody", "routerIDUpdateBody", "IPRouteBody",
                "lookupBody", "RegisteredNexthop", "NexthopRegisterBody", "NexthopUpdateBody", "labelManagerConnectBody", "GetLabelChunkBody",
                "releaseLabelChunkBody", "vrfLabelBody"]
_C19_MUST = (
    ["rtr_hostile_inputs", "rtr_reserialized", "rtr_calls_ParseRTR"] +
    ["rtr_rt_" + n for n in ("serial_notify", "serial_query", "reset_query", "cache_response", "ipv4_prefix", "ipv6_prefix", "end_of_data", "cache_reset", "error_report")] +
    ["bfd_hostile_inputs", "bfd_rt", "bfd_result_ok", "bfd_accepted_remarshaled"] +
    ["bmp_hostile_inputs", "bmp_trailing_differentials", "bmp_split_clean_streams", "bmp_split_scanner_runs", "bmp_accepted_reserialized", "bmp_rt_timestamp_checked"] +
    ["bmp_rt_" + n for n in ("route_monitoring", "statistics_report", "peer_up", "initiation", "termination", "route_mirroring")] +
    ["bmp_rt_peer_down_r%d" % i for i in range(1, 7)] +
    ["bmp_direct_%s.ParseBody" % n for n in ("BMPRouteMonitoring", "BMPStatisticsReport", "BMPPeerDownNotification", "BMPPeerUpNotification", "BMPInitiation", "BMPTermination", "BMPRouteMirroring")] +
    ["mrt_hostile_inputs", "mrt_split_clean_streams", "mrt_split_scanner_runs", "mrt_accepted_reserialized", "mrt_rt_BGP4MP_ET", "mrt_rt_bgp4mp_payload_form",
     "mrt_rt_BGP4MP/MESSAGE*_ADDPATH(path-ids)", "mrt_direct_parseRibEntry"] +
    ["mrt_rt_" + n for n in _C19_MRT if "ADDPATH" not in n or n.startswith("TABLE")] + ["mrt_parsebody_" + n for n in _C19_MRT] +
    ["zapi_hostile_inputs", "zapi_rt_messages", "zapi_receive_differentials", "zapi_calls_parseMessage", "zapi_calls_ReceiveSingleMsg", "zapi_calls_Header.decodeFromBytes"] +
    ["zapi_rt_header_v%d" % v for v in range(2, 7)] +
    ["zapi_rt_" + n for n in ("HelloBody", "redistributeBody", "vrfLabelBody", "unknownBody", "NexthopRegisterBody", "NexthopUpdateBody", "IPRouteBody")] +
    ["zapi_calls_%s.decodeFromBytes" % n for n in _C19_ZBODIES] +
    ["zapi_hostile_flavour_" + f for f in _C19_FLAVOURS] + ["zapi_rt_flavour_" + f for f in _C19_FLAVOURS] +
    # daemon-level unit (c19d): records written by EnableMrt / received by a BMP station
    ["mrt_scenarios_nontrivial", "mrt_table_dumps_checked", "mrt_peer_entries_compared", "mrt_rib_entries_compared", "mrt_prefixes_compared",
     "mrt_bgp4mp_headers_compared", "mrt_bgp4mp_updates_compared", "mrt_peer_entries_compared_with_route_source",
     "mrt_identity_event_new-router-id", "mrt_identity_event_new-as", "mrt_identity_event_withdraw-all", "mrt_identity_event_delete-peer", "mrt_rec_TABLE_DUMPv2/PEER_INDEX_TABLE", "mrt_rec_TABLE_DUMPv2/RIB_IPV4_UNICAST",
     "mrt_rec_TABLE_DUMPv2/RIB_IPV6_UNICAST", "mrt_rec_TABLE_DUMPv2/RIB_IPV4_UNICAST_ADDPATH", "mrt_rec_BGP4MP/MESSAGE", "mrt_rec_BGP4MP/MESSAGE_AS4",
     "mrt_rec_BGP4MP/MESSAGE_AS4_ADDPATH",
     "bmp_scenarios_nontrivial", "bmp_msg_initiation", "bmp_msg_peer-up", "bmp_msg_peer-down", "bmp_msg_route-monitoring", "bmp_msg_termination",
     "bmp_msg_statistics-report", "bmp_rm_pre-policy", "bmp_rm_post-policy", "bmp_rm_loc-rib", "bmp_peer_up_checked", "bmp_peer_down_checked",
     "bmp_view_comparisons", "bmp_routes_compared", "bmp_stats_reports_compared", "bmp_termination_checked"]
)
PROPS["C19"] = dict(
    level="exploration",
    level_text="Per-protocol runtime monitors over generated hostile inputs (pure random bytes and structure-aware mutations of valid serialised "
               "messages: bit flips, length fields 0/1/max/+-1, truncation, TLV duplication, splicing) for every decoder entry point, ZAPI version "
               "2..6 and software flavour, plus generator-driven round trips of every constructible message against independent reference encodings. "
               "Exploration is the right level: the input space is all byte strings; the generators are aimed at length guards and framing.",
    level_note="Function-level half of C19 (package Parse*/Serialize entry points). 'Does not loop' is decided by the shard watchdog (bounded time) and, "
               "for the splitters, by a token budget on a real bufio.Scanner; 'does not read past the data' by exact-capacity buffers (a read past len "
               "panics) and by a poison differential over the spare capacity / the bytes after the declared length. The BGP PDUs, NLRI and path "
               "attributes inside MRT/BMP records are cargo taken from the bgp package (its codec is C04/C05). The daemon-emitted MRT/BMP records "
               "half is the unit 'daemon' on the server simulator: the bytes the speakers wrote / gobgp wrote are taken from a tap on the pipes, the "
               "API views (ListPeer, ListPath GLOBAL/ADJ_IN) are the reference for tables; ListPath itself is C02's subject.",
    technique="runtime monitors (panic guard, buffer-unchanged, over-read poison differential, bufio.SplitFunc contract, real bufio.Scanner runs, "
              "stream-consumption accounting on an in-memory net.Conn) + round-trip / independent-reference-encoding oracle over generated messages",
    rule="case = one hostile input fed to the entry points of its protocol (quick: rtr 6e4, bfd 4e4, bmp 1.2e5, mrt 1.2e5, zapi 2.4e5 cases; thorough 20x), "
         "or one constructed message round-tripped; non-trivial iff a decoder was executed on it; distinct by (protocol, entry point, "
         "version/flavour, message type, first error text with numbers stripped or ok); daemon unit: case = one scenario (idx%3==2: BMP station in real "
         "time, else MRT update + table dump writers in virtual time; quick 60 MRT + 30 BMP scenarios, thorough 20x), non-trivial iff >=1 route record "
         "(BGP4MP / RIB_* / route monitoring with routes) was emitted, distinct by scenario shape hash (global AS, peer kinds/address family/AS width/"
         "ADD-PATH/2-octet-only, policy, local routes, monitoring policy, late station, session-loss kind, identity events between the dumps of one table "
         "dump writer: same address re-established with another router-id / re-configured with another AS, all routes withdrawn, neighbour deleted)",
    assumptions=["a value is 'constructible' when it is built through the package's constructors / fields with in-range, mutually consistent field values "
                 "(e.g. RTR prefix length <= max length <= address bits, BMP TLV class matching its type code, 2-octet AS numbers in non-AS4 MRT records, "
                 "BMP per-peer timestamps on the microsecond grid)",
                 "request-only or response-only ZAPI layouts (interface*, routerID, lookup, labelManagerConnect, get/releaseLabelChunk, ZAPI v2-4 route "
                 "messages) are not expected to round-trip; they are covered by the hostile-input monitors only",
                 "representation slack accepted as equal: nil vs empty slices, fields documented as derived on serialise (lengths, counts, nexthop type "
                 "from gate/ifindex, nexthop flag bits from label/weight/backup counts, prefix family from the address), BMP timestamps within 0.5 us",
                 "allocation size is not monitored (not in the property text); the watchdog decides 'did not return' by a two-strike timeout",
                 "daemon unit: link-local next hops are left out of the attribute comparison (table.ProcessMessage drops them on input, so the API side "
                 "never has them); a PEER_INDEX_TABLE may omit neighbours that are the source of no route and may hold the documented 0.0.0.0/AS 0 entry "
                 "for local routes; a 2-octet BGP4MP record may carry AS_TRANS for a 4-octet AS; Loc-RIB path identifiers are opaque (one route per "
                 "destination with the best path's attributes is what is required); monitoring policy 'both' (documented as obsolete) may monitor nothing",
                 "daemon unit, BMP part runs in real time: every wait is bounded and a timeout ends INCONCLUSIVE; what is compared is decided by FIFO "
                 "barriers (a marker route per peer that must reach every configured view) and a converge loop, never by elapsed time; 'no Peer Down "
                 "after DeletePeer' is decided after two later barriers and the peer having seen its connection closed"],
    must_count=_C19_MUST,
    units=[
        dict(name="rtr", harness="t_rtr", files=["common_", "c19_"], run="TestVerifC19",
             shards=dict(quick=4, thorough=16), timeout_s=dict(quick=600, thorough=3600)),
        dict(name="bfd", harness="t_bfd", files=["common_", "c19_"], run="TestVerifC19",
             shards=dict(quick=4, thorough=8), timeout_s=dict(quick=600, thorough=3600)),
        dict(name="bmp", harness="t_bmp", files=["common_", "c19_"], run="TestVerifC19",
             shards=dict(quick=8, thorough=16), timeout_s=dict(quick=600, thorough=3600)),
        dict(name="mrt", harness="t_mrt", files=["common_", "c19_"], run="TestVerifC19",
             shards=dict(quick=8, thorough=16), timeout_s=dict(quick=600, thorough=3600)),
        dict(name="zebra", harness="t_zebra", files=["common_", "c19_"], run="TestVerifC19",
             shards=dict(quick=8, thorough=16), timeout_s=dict(quick=600, thorough=5400)),
        # daemon level: a real BgpServer on simnet; MRT scenarios in virtual time (synctest), BMP scenarios in real time
        # against a loopback TCP station (case idx%3==2). quick 60 MRT + 30 BMP scenarios, thorough 20x.
        dict(name="daemon", harness="t_server", files=["sim_", "c19d_"], run="TestVerifC19Daemon",
             shards=dict(quick=8, thorough=16), timeout_s=dict(quick=900, thorough=7200)),
    ],
)
