# registry entry for C14 (loaded by /verif/registry.py; PROPS is predefined)
PROPS["C14"] = dict(
    level="exploration",
    level_text="Runtime monitor over generated AS paths: the real send path (UpdatePathAttrs2ByteAs/UpdatePathAggregator2ByteAs + Serialize) and the real "
               "receive path of a 2-octet session (ParseBGPMessage with Use2ByteAS -> validateAsPathValueBytes, ValidateUpdateMsg, UpdatePathAttrs4ByteAs/"
               "UpdatePathAggregator4ByteAs) are executed on every case; the wire bytes are judged by an independent RFC 4271/6793 walker and the "
               "results by independent references for RFC 6793 4.2.2 (down-conversion) and 4.2.3 (reconstruction). Exploration is the right level: "
               "the path space is infinite; the generator spans the shapes the segment arithmetic depends on (leading confederation run, leading SET, "
               "255-member segments, SEQ/SET mixes, cut inside/at the edge of a segment, AS4_PATH longer than AS_PATH, confederation segments in AS4_PATH).",
    level_note="Trusts the harness' reading of RFC 6793 4.2.2/4.2.3/6 and RFC 5065 counting; paths are compared up to the segmentation of adjacent "
               "AS_SEQUENCE segments. The session itself (capability negotiation, fsm.twoByteAsTrans) is not run; the functions are called in the order fsm.go calls them.",
    technique="runtime round-trip + differential monitor (independent wire walker, RFC 6793 reference reconstruction) over generated AS_PATH/AGGREGATOR and (AS_PATH, AS4_PATH) pairs",
    rule="case = one AS_PATH (+ optional AGGREGATOR) sent to and re-learned from a 2-octet peer (60%), or one (AS_PATH, AS4_PATH) pair as delivered by a chain of OLD "
         "speakers (prepend / aggregate / confederation hop) or generated independently (40%); a round-trip case is non-trivial iff AS4_PATH or AS4_AGGREGATOR was needed; "
         "distinct by the sequence of (segment type, length class) of the path(s)",
    assumptions=["RFC 6793 counting of AS numbers is RFC 4271 9.1.2.2 + RFC 5065 (SET = 1, confederation segments = 0)",
                 "[SEQ a][SEQ b] and [SEQ a b] denote the same path",
                 "AS_PATHs have the RFC 5065 shape: confederation segments only as a leading run"],
    must_count=["roundtrip_paths", "roundtrip_with_as4", "pairs", "pairs_as4_longer", "pairs_with_prepended_part", "aggregators_as4", "as4_path_sent",
                # unit "e2e" (real sessions with a 2-octet-AS speaker)
                "e2e:c14:scenarios", "e2e:c14:nontrivial_scenarios", "e2e:c14:confederation", "e2e:c14:local-as-4-octet", "e2e:c14:to-old:routes", "e2e:c14:to-old:as4-path-sent",
                "e2e:c14:to-old:with-4-octet-asn", "e2e:c14:to-old:reconstructed-equal", "e2e:c14:to-old:leading-confed-run", "e2e:c14:to-old:255-member-segment", "e2e:c14:to-old:set-segment",
                "e2e:c14:to-old:aggregator", "e2e:c14:to-old:as4-aggregator-sent", "e2e:c14:from-old:routes", "e2e:c14:from-old:rib-path-equal", "e2e:c14:from-old:new-speaker-path-equal",
                "e2e:c14:from-old:aggregator", "e2e:c14:from-old:class:chain", "e2e:c14:from-old:class:no-as4", "e2e:c14:from-old:class:as4-longer", "e2e:c14:from-old:class:as4-tail",
                "e2e:c14:from-old:class:chain:confed-run", "e2e:c14:from-old:class:chain:leading-set"]
               + ["e2e:c14:topology:n=%s,o=%s" % (a, b) for a in ("ebgp", "ibgp") for b in ("ebgp", "rrclient", "confed")]
               # second scenario kind of unit "e2e": the 4-octet-AS capability of one neighbour changes between its sessions
               + ["e2e:c14:resession:scenarios", "e2e:c14:resession:nontrivial_scenarios", "e2e:c14:resession:sessions", "e2e:c14:resession:sent:routes",
                  "e2e:c14:resession:sent:ok:2-octet", "e2e:c14:resession:sent:ok:4-octet", "e2e:c14:resession:sent:aggregator", "e2e:c14:resession:received:routes",
                  "e2e:c14:resession:received:ok:2-octet", "e2e:c14:resession:received:ok:4-octet", "e2e:c14:resession:received:class:chain", "e2e:c14:resession:received:class:4-octet-path",
                  "e2e:c14:resession:session:2-octet:after-4-octet-session", "e2e:c14:resession:session:4-octet:after-2-octet-session",
                  "e2e:c14:resession:session:2-octet:first-session", "e2e:c14:resession:session:4-octet:first-session"],
    units=[dict(name="table", harness="t_table", files=["common_", "c14_"], run="TestVerifC14",
                shards=dict(quick=16, thorough=16), timeout_s=dict(quick=600, thorough=5400)),
           dict(name="e2e", harness="t_server", files=["sim_", "e2e_"], run="TestVerifE2E_C14",
                shards=dict(quick=16, thorough=16), timeout_s=dict(quick=900, thorough=5400))],
)
