# registry entry for C20 (loaded by /verif/registry.py; PROPS is predefined)
PROPS["C20"] = dict(
    level="exploration",
    level_text="The daemon runs in virtual time under the Go race detector while 3-5 scripted speakers (announcements, withdrawals, flaps, slow readers, "
               "concurrent bursts) (half of them negotiating graceful restart, a quarter long-lived graceful restart, with restart times of a few virtual seconds so that every GR phase is met) are composed with management clients in their own goroutines (peer add/delete/update, policy and defined-set edits, VRFs, "
               "API paths, soft/hard resets, enable/disable/shutdown, watchers added and stopped, list/get readers); schedules are diversified with "
               "GOMAXPROCS 1/2/4/16 and the lock-free yield hooks. Monitors: race reports with gobgp frames; API calls still outstanding after exact "
               "quiescence plus 20 virtual minutes (lost wake-up); bubble never idle (mutex deadlock: the recorder's stall monitor analyses its all-goroutine dump - nobody runnable and goroutines waiting for a sync.Mutex/RWMutex for minutes is a deadlock on the first strike, keyed by the gobgp functions waiting; anything else is the two-strike watchdog); after Stop()/DeletePeer every "
               "connection closed and no gobgp goroutine alive; any crash. Exploration: schedules are sampled.",
    level_note="Races/deadlocks only on paths these workloads drive; a lock-order inversion that never manifests is not detected (no lockdep). "
               "Virtual time (synctest) serialises timer firing with goroutine quiescence, real-socket effects are out of reach.",
    technique="Go race detector + virtual-time lost-wake-up oracle + goroutine/connection leak scan over composed traffic/management workloads with steered schedules",
    rule="case = one history (30-120 traffic events interleaved with management operations, shut down at the end or at a random point); non-trivial iff >=2 "
         "different kinds of management operations overlapped in time (recorded call/return); distinct by (overlapping-kind set, interleaving signature = hash of the order in which yield points were passed)",
    assumptions=["race detector sees only executed code", "net.Pipe transports"],
    must_count=["mgmt_ops", "api_calls_completed", "clean_shutdowns", "connections_seen_closed", "yield_points_reached", "histories_with_overlapping_ops", "histories_stopped_midway",
                "peers_with_graceful_restart", "peers_in_restarting_state_before_timers_ran",
                "peers_with_hold_timer", "hold_timer_expiries_provoked", "hold_timer_expiries_crossing_peer_notification"],
    min_nontrivial=10,
    race_property="C20",
    units=[dict(name="race", harness="t_server", files=["sim_", "c01_", "c20_"], run="TestVerifC20", race=True, gomaxprocs=[16, 4, 2, 1],
                shards=dict(quick=16, thorough=16), timeout_s=dict(quick=1800, thorough=10800)),
           dict(name="norace", harness="t_server", files=["sim_", "c01_", "c20_"], run="TestVerifC20", gomaxprocs=[1, 2, 4, 16], env={"VERIF_C20_CASES": 0},
                shards=dict(quick=8, thorough=16), timeout_s=dict(quick=1800, thorough=10800))],
)
