# registry entry for C04 (loaded by /verif/registry.py; PROPS is predefined)
PROPS["C04"] = dict(
    level="exploration",
    level_text="Generator-driven runtime monitor of the real Serialize/Parse/Len code: algebraic identities (parse∘serialise = id, "
               "serialise∘parse fixpoint, Len = emitted = consumed) plus a differential against an independent RFC 4271/4760/7911 framing "
               "reader. Exploration is the right level: the message space is infinite; the generator enumerates every constructible "
               "capability, attribute and NLRI type with boundary-biased values under every option combination.",
    level_note="Trusts the harness generator to build only structurally valid values (value classes gobgp cannot represent by design, e.g. "
               "several key/value NLRI in one attribute or label stacks that overflow the one-octet NLRI length, are not generated); the "
               "independent reader checks framing, not attribute semantics. MRT serialisation mode is not part of the statement and is not "
               "exercised here.",
    technique="runtime monitor over generated messages: round-trip/fixpoint identities, per-element Len/emit/consume agreement, "
              "independent wire reader differential, re-serialisation identities on parser-accepted mutants, and statefulness identities (the same / a parsed object serialised under a sequence of other option sets, parse-edit-serialise versus fresh-edit-serialise, Len()/Serialize() call order — each compared with a freshly constructed equal value)",
    rule="case = one generated message x option set (3 of 4 cases), or one structure-aware mutant of a valid core-family message that the "
         "parser accepts (1 of 4); non-trivial iff it parses and holds >=1 attribute/NLRI/capability; distinct by (type set, option set, "
         "length bucket)",
    assumptions=["the independent reader in harness/wire is a correct reading of RFC 4271 s4, RFC 4760 s3-5, RFC 7911 s3, RFC 8654",
                 "nil vs empty slices, fields named Reserved, the PathAttribute.Length / extended-length flag / TunnelEncapTLV.Length / "
                 "OpaqueNLRI.Length header caches and the IPv4-mapped form of an IPv4 next hop under an IPv6 AFI are representation, not content",
                 "for parser-accepted hostile inputs gobgp may canonicalise once (only the fixpoint of serialise∘parse is claimed); cached "
                 "header lengths of the parsed message are cleared before it is re-serialised"],
    must_count=["kind_open", "kind_update", "kind_notification", "kind_refresh", "kind_keepalive", "wire_checked", "wire_mp_prefix_lists",
                "attr_len_checks", "attr_consume_checks", "nlri_len_checks", "nlri_consume_checks", "cap_len_checks", "accepted_half_accepted_mutants",
                "opt_addpath", "opt_as2", "opt_extmsg", "msgs_over_4096", "stateful_call_order_checks", "stateful_option_sequence_checks", "stateful_edit_checks"]
               + ["attr_type_%d" % t for t in (1, 2, 3, 4, 5, 6, 7, 8, 9, 10, 14, 15, 16, 17, 18, 22, 23, 25, 26, 29, 32, 40)]
               + ["cap_code_%d" % c for c in (1, 2, 4, 5, 6, 64, 65, 69, 70, 71, 73, 75, 128)]
               + ["family_" + f for f in ("ipv4-unicast", "ipv6-unicast", "ipv4-multicast", "ipv6-multicast", "ipv4-labelled-unicast",
                                         "ipv6-labelled-unicast", "l3vpn-ipv4-unicast", "l3vpn-ipv6-unicast", "l3vpn-ipv4-multicast",
                                         "l3vpn-ipv6-multicast", "l2vpn-vpls", "l2vpn-evpn", "rtc", "ipv4-encap", "ipv6-encap", "ipv4-flowspec",
                                         "l3vpn-ipv4-flowspec", "ipv6-flowspec", "l3vpn-ipv6-flowspec", "l2vpn-flowspec", "opaque", "ls",
                                         "ipv4-srpolicy", "ipv6-srpolicy", "ipv4-mup", "ipv6-mup")],
    units=[dict(name="bgp", harness="t_bgp", files=["gen_", "c04_"], run="TestVerifC04", env={"VERIF_STALL_S": "90", "VERIF_STALL_EXIT": "1"},
                shards=dict(quick=16, thorough=16), timeout_s=dict(quick=420, thorough=7200))],
)
