# registry entry for C13 (loaded by /verif/registry.py; PROPS is predefined)
PROPS["C13"] = dict(
    level="exploration",
    level_text="Differential runtime monitor: the compiled matchers (per matcher and through Condition.Evaluate, all three options, after random "
               "edit sequences) are executed on thousands of pattern lists x communities and compared with Go's regexp on the canonical text. "
               "Exploration is the right level: the pattern space is infinite, the grammar is aimed at the compiler's recognisers and their near misses.",
    level_note="Trusts Go's regexp as the meaning of a pattern and String() as canonical text; patterns outside the generator's grammar are not covered.",
    technique="runtime differential monitor (compiled matcher vs regexp.MatchString) over generated pattern lists, communities and edit sequences",
    rule="case = one pattern list (1-4 patterns drawn from the grammar of compiler-recognised shapes and near misses, plus 0-2 random "
         "Append/Remove/Replace edits) probed with ~70 communities per matcher and 12 routes x any/all/invert; non-trivial iff at least one "
         "pattern was promoted to a non-regexp matcher mode; distinct by (matcher-mode sequence, pattern list with numbers abstracted)",
    assumptions=["Go's regexp package is the reference semantics of a configured pattern",
                 "canonical text of a community is AS:local in decimal; of an extended community its String()",
                 "only transitive extended communities take part in matching (RFC 7153), as gobgp documents"],
    must_count=["matcher_evals", "condition_evals", "edits"],
    units=[dict(name="table", harness="t_table", files=["common_", "c13_"], run="TestVerifC13",
                shards=dict(quick=16, thorough=16), timeout_s=dict(quick=600, thorough=3600))],
)
