# >>> C18 (begin)
_C18_ATTRS = ["Origin", "AsPath", "NextHop", "MultiExitDisc", "LocalPref", "AtomicAggregate", "Aggregator", "Communities", "OriginatorId", "ClusterList",
              "MpReachNLRI", "MpUnreachNLRI", "ExtendedCommunities", "As4Path", "As4Aggregator", "PmsiTunnel", "TunnelEncap", "IP6ExtendedCommunities",
              "Aigp", "LargeCommunities", "Ls", "PrefixSID", "Unknown"]
_C18_NLRIS = ["IPAddrPrefix", "LabeledIPAddrPrefix", "LabeledVPNIPAddrPrefix", "EncapNLRI", "VPLSNLRI", "RouteTargetMembershipNLRI", "FlowSpecNLRI", "OpaqueNLRI",
              "SRPolicyNLRI", "EVPNNLRI/EVPNEthernetAutoDiscoveryRoute", "EVPNNLRI/EVPNMacIPAdvertisementRoute", "EVPNNLRI/EVPNMulticastEthernetTagRoute",
              "EVPNNLRI/EVPNEthernetSegmentRoute", "EVPNNLRI/EVPNIPPrefixRoute", "EVPNNLRI/EVPNIPMSIRoute", "LsAddrPrefix/LsNodeNLRI", "LsAddrPrefix/LsLinkNLRI",
              "LsAddrPrefix/LsPrefixV4NLRI", "LsAddrPrefix/LsPrefixV6NLRI", "LsAddrPrefix/LsSrv6SIDNLRI", "MUPNLRI/MUPInterworkSegmentDiscoveryRoute",
              "MUPNLRI/MUPDirectSegmentDiscoveryRoute", "MUPNLRI/MUPType1SessionTransformedRoute", "MUPNLRI/MUPType2SessionTransformedRoute"]
_C18_CAPS = ["MultiProtocol", "RouteRefresh", "CarryingLabelInfo", "ExtendedNexthop", "GracefulRestart", "FourOctetASNumber", "AddPath", "EnhancedRouteRefresh",
             "LongLivedGracefulRestart", "RouteRefreshCisco", "FQDN", "SoftwareVersion", "ExtendedMessage", "Unknown"]
_C18_FNS = ["MarshalPathAttributes", "UnmarshalAttribute", "UnmarshalPathAttributes", "MarshalNLRI", "UnmarshalNLRI", "MarshalCapability", "unmarshalCapability",
            "MarshalCapabilities", "UnmarshalCapabilities", "MarshalRD", "UnmarshalRD", "MarshalRTs", "UnmarshalRTs", "MarshalFlowSpecRules", "UnmarshalFlowSpecRules",
            "MarshalMUPTLVs", "UnmarshalMUPTLVs", "MarshalLsNodeDescriptor", "UnmarshalLsNodeDescriptor", "MarshalSRBSID", "UnmarshalSRBSID", "NewPath",
            "GetNativeNlri", "GetNativePathAttributes"]
_C18_FAMILIES = ["ipv4-unicast", "ipv6-unicast", "ipv4-multicast", "ipv6-multicast", "ipv4-labelled-unicast", "ipv6-labelled-unicast", "l3vpn-ipv4-unicast",
                 "l3vpn-ipv6-unicast", "l3vpn-ipv4-multicast", "l3vpn-ipv6-multicast", "l2vpn-vpls", "l2vpn-evpn", "rtc", "ipv4-encap", "ipv6-encap", "ipv4-flowspec",
                 "l3vpn-ipv4-flowspec", "ipv6-flowspec", "l3vpn-ipv6-flowspec", "l2vpn-flowspec", "opaque", "ls", "ipv4-srpolicy", "ipv6-srpolicy", "ipv4-mup", "ipv6-mup"]

PROPS["C18"] = dict(
    level="exploration",
    level_text="Round-trip runtime monitors. Unit 'apiutil': every converter of pkg/apiutil is executed on generated native values (every path attribute type, NLRI of "
               "every family and route type, every capability, RD/RT/flow-spec/MUP/BGP-LS/SR helper converters, attribute lists through api.Path incl. the binary "
               "carriage) and on API messages (the converters' own output, presence toggles of it, hand-built messages of kinds Marshal* never emits); the results "
               "are judged by wire bytes, Len, String and proto.Equal. Unit 'server': one real BgpServer per shard is configured through the API (paths of all "
               "families with generated attributes and path identifiers, neighbors, peer groups, defined sets, statements, policies, assignments) and read back "
               "through the API. Exploration is the right level: the value space is unbounded; the generator enumerates every constructible type with "
               "boundary-biased values and every optional field present/absent.",
    level_note="Trusts Serialize of pkg/packet/bgp as the meaning of a native value (its own round trip is C04) and protobuf reflection for equality. Numeric API "
               "fields stay inside the width of the wire field they describe (silent truncation of out-of-range API input is not judged); reserved flag bits the "
               "API models as named booleans are not generated; 2-octet-AS encodings are a session re-encoding (C14). The server unit does not compare fields a "
               "request leaves at the proto3 default (the server may fill in defaults) nor fields newNeighborFromAPIStruct/newPeerGroupFromAPIStruct never read "
               "(send_community, mtu_discovery, remote_address, stale_routes_time, mode, peer-group conf.type and transport.local_port); VRF, unnumbered neighbors and BFD sessions are not started.",
    technique="runtime round-trip monitor: native->API->native judged by re-serialised wire bytes (+Len, String), API->native->API judged by proto.Equal modulo documented "
              "slack, panic guard; configuration read-back monitor on a live BgpServer (request vs List* response, field by field)",
    rule="apiutil case = one generated native value (or attribute list + NLRI as api.Path, or one hand-built API message) x MarshallingOption set (ADD-PATH per family); "
         "each value is converted native->API->native->API, its API form is presence-toggled (clear a sub-message / list / optional string, add an empty sub-message) "
         "and fed back when the converters accept it; non-trivial iff the API form has a nested element or >= 2 populated fields; distinct by (Go type, field-presence "
         "mask of the API message). server case = one Add*/List*/Delete* read-back; distinct by (object kind, NLRI type / field-presence mask). or one stateful sequence on a configuration object (defined set of every type: create / Replace / add to an existing name / delete members / delete + re-create, listed back after every step and compared with a fresh set created with the expected members; statement: add further kinds to an existing name, delete kinds; policy: append / remove statements, re-create; global assignment: add / set / remove / delete all; neighbor: AddPeer, UpdatePeer, ListPeer), distinct by (object kind, operation trace). "
         "quick: 1e5 apiutil cases + 3.4e3 server cases; thorough: 3e6 + 1e5",
    assumptions=["equal API value = proto.Equal after clearing singular non-oneof sub-messages and map entries that hold no populated field (absent == all defaults); a field "
                 "the original API message leaves unset may come back default-filled (counted under api_default_filled:*), a populated field may not be lost or changed",
                 "a Marshal* error that comes from the default branch of its type switch ('unsupported ...', 'invalid ... type to marshal') documents the type as unsupported "
                 "(counted under documented_unsupported:*); an api message without content and without error does not",
                 "an IPv4-mapped IPv6 next hop is the wire form of an IPv4 next hop under an IPv6 AFI (the API prints it as IPv4 on purpose): only unmapped next hops are generated; "
                 "String() of the Prefix-SID attribute is not compared (two Go types render the same L3-service TLV)",
                 "the order of the TLVs inside the BGP-LS attribute is not significant (RFC 7752 3.3; the API groups them by kind): the same TLV multiset in another order is accepted",
                 "Len() is compared with the serialised size only when the original value was itself consistent (Len reads cached header fields)",
                 "string/bytes fields are emptied only where the field is optional by itself (EVPN MAC/IP address, BGP-LS optional TLVs, FQDN, opaque values); lists a TLV consists of "
                 "(End.X SIDs) are not cleared; an all-zero address family is not generated",
                 "server sequences: Replace leaves exactly the new members, adding to an existing name the union, deleting members the difference; members are compared as a set "
                 "(a member listed twice after it was added twice is counted under seq_set_listing_with_duplicates, not judged); a default action the sequence has not set is not compared; "
                 "after UpdatePeer only the fields the update sets, and a short list of zero-default fields it leaves unset, are compared",
                 "server: listed community / as-path set entries may be the documented normalisation of the configured text (^value$ for a plain value, '_' expanded); "
                 "RPKI condition NONE equals no condition; the ES-Import route target the server derives for EVPN Ethernet-segment routes (RFC 7432 7.6) is not compared; "
                 "an IPv4-unicast route may be listed with NEXT_HOP or MP_REACH"],
    must_count=["api_accepted", "attr_lists", "paths_structured", "paths_binary", "path_readbacks", "path_with_identifier", "peer_readbacks", "peer_group_readbacks",
                "defined_set_readbacks", "statement_readbacks", "policy_readbacks", "assignment_readbacks",
                "seq_set_steps", "seq_set_op:create", "seq_set_op:replace", "seq_set_op:append", "seq_set_op:remove", "seq_set_op:recreate",
                "seq_statement_steps", "seq_policy_steps", "seq_policy_op:append", "seq_policy_op:remove", "seq_policy_op:recreate",
                "seq_assignment_steps", "seq_assignment_op:add", "seq_assignment_op:set", "seq_assignment_op:remove", "seq_assignment_op:delete-all", "seq_peer_updates"]
               + ["seq_set:" + t for t in ("PREFIX", "NEIGHBOR", "AS_PATH", "COMMUNITY", "EXT_COMMUNITY", "LARGE_COMMUNITY")]
               + ["attr:PathAttribute" + a for a in _C18_ATTRS] + ["nlri:" + n for n in _C18_NLRIS] + ["cap:Cap" + c for c in _C18_CAPS] + ["fn:" + f for f in _C18_FNS]
               + ["family:" + f for f in _C18_FAMILIES] + ["path_family:" + f for f in _C18_FAMILIES if "srpolicy" not in f]
               + ["defined_set:" + t for t in ("PREFIX", "NEIGHBOR", "AS_PATH", "COMMUNITY", "EXT_COMMUNITY", "LARGE_COMMUNITY")],
    min_nontrivial=500,
    units=[dict(name="apiutil", harness="t_apiutil", files=["c18_"], run="TestVerifC18",
                shards=dict(quick=16, thorough=16), timeout_s=dict(quick=600, thorough=5400)),
           dict(name="server", harness="t_server", files=["c18_"], run="TestVerifC18",
                shards=dict(quick=16, thorough=16), timeout_s=dict(quick=900, thorough=7200))],
)
# <<< C18 (end)
