# registry entry for C05 (loaded by /verif/registry.py; PROPS is predefined)
PROPS["C05"] = dict(
    level="exploration",
    level_text="Hostile-input runtime monitor of every decoder entry point of pkg/packet/bgp: panics (recovered per call and keyed by the "
               "gobgp function at the panic site), writes to the caller's buffer, an over-read differential (octets beyond the declared end "
               "must not influence value or error), render/re-serialise of every value the daemon would go on using, an allocation bound on "
               "a sample, and the driver's watchdog for hangs. Exploration is the right level: 'all byte strings' can only be sampled; the "
               "productive part are structure-aware mutations of valid messages of every type under every option combination.",
    level_note="Go is memory safe, so an out-of-bounds access is a panic, not silent corruption; reading beyond len within cap is covered by the "
               "differential. Non-termination is judged by the driver's watchdog (two-strike rule). The real receive path of pkg/server is not "
               "driven here (only the codec entry points it calls).",
    technique="runtime monitor (recover, buffer compare, poison-suffix differential, render probes, MemStats delta) over random and "
              "structure-aware mutated inputs; second unit under the race detector (checkptr, concurrent readers of one buffer)",
    rule="case = one input (pure random, valid, or 1-2 structure-aware mutations of a generated valid message) x option set, fed to every "
         "applicable entry point (message, header+body, per attribute, per NLRI family, per capability); an evaluation is one entry-point "
         "call; non-trivial iff the decoder got past the first length check (a nested element decoded or a non-header error); distinct by "
         "(entry point, first-error class or result type set)",
    assumptions=["a value is 'used by the daemon' iff it is returned without error, or it is an UPDATE returned with an attribute-discard / "
                 "treat-as-withdraw MessageError (pkg/server/fsm.go recvMessageWithError / handlingError)",
                 "octets in the slice's spare capacity and octets behind the header-declared length are outside the declared message"],
    must_count=["entry_ParseBGPMessage", "entry_ParseBGPMessage+next", "entry_ParseBGPBody", "entry_BGPHeader.DecodeFromBytes", "rendered_ParseBGPMessage",
                "rendered_with_nonfatal_error", "alloc_samples", "class_random", "class_mutated1", "class_valid", "nontrivial_calls"]
               + ["entry_attr%d" % t for t in (1, 2, 3, 4, 5, 6, 7, 8, 9, 10, 14, 15, 16, 17, 18, 22, 23, 25, 26, 29, 32, 40)] + ["entry_attrUnknown"]
               + ["entry_cap%d" % c for c in (1, 2, 4, 5, 6, 64, 65, 69, 70, 71, 73, 75, 128)] + ["entry_capUnknown"]
               + ["entry_nlri:" + f for f in ("ipv4-unicast", "ipv6-unicast", "ipv4-multicast", "ipv6-multicast", "ipv4-labelled-unicast",
                                              "ipv6-labelled-unicast", "l3vpn-ipv4-unicast", "l3vpn-ipv6-unicast", "l3vpn-ipv4-multicast",
                                              "l3vpn-ipv6-multicast", "l2vpn-vpls", "l2vpn-evpn", "rtc", "ipv4-encap", "ipv6-encap", "ipv4-flowspec",
                                              "l3vpn-ipv4-flowspec", "ipv6-flowspec", "l3vpn-ipv6-flowspec", "l2vpn-flowspec", "opaque", "ls",
                                              "ipv4-srpolicy", "ipv6-srpolicy", "ipv4-mup", "ipv6-mup")],
    units=[dict(name="bgp", harness="t_bgp", files=["gen_", "c05_"], run="TestVerifC05", env={"VERIF_STALL_S": "90", "VERIF_STALL_EXIT": "1"},
                shards=dict(quick=16, thorough=16), timeout_s=dict(quick=420, thorough=7200)),
           dict(name="bgp_race", harness="t_bgp", files=["gen_", "c05_"], run="TestVerifC05", race=True, env={"VERIF_C05_RACE": "1", "VERIF_STALL_S": "90", "VERIF_STALL_EXIT": "1"},
                shards=dict(quick=16, thorough=16), timeout_s=dict(quick=420, thorough=7200))],
)
