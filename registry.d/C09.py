_C09_SRC = ("local", "ebgp", "ibgp", "rrclient", "confed")
_C09_DST = ("ebgp", "ibgp", "rrclient", "rsclient", "confed")
PROPS["C09"] = dict(
    level="exploration",
    level_text="Runtime monitor over the product (source kind x target kind x per-peer options x attribute shape). Unit 'table' executes the real "
               "table.UpdatePathAttrs (after Path.ReplaceAS when replace-peer-as is set, the order pkg/server uses) with PeerInfo built by gobgp's own "
               "SetDefaultNeighborConfigValues + NewPeerInfo; unit 'server' executes filterpath, (*BgpServer).filterpath (pre-policy filter, rewriting, "
               "export policy, LOCAL_PREF stripping) and peer.handleUpdate / hasOwnASLoop on real peer objects built like the repository's "
               "TestFilterpathWith* tests. Every produced copy is compared with an independent rule table (refmodel.C09Export, written from the property text "
               "and RFC 4271/4456/5065/7947/6996); the stored route and the earlier copy are snapshotted byte for byte (serialised attributes, flags, NLRI, next "
               "hops, overlay chain, backing arrays of all slice-valued attributes up to capacity) around two exports to different targets; unit "
               "'table_race' runs the exports of four targets concurrently on one stored path under the race detector. Exploration is the right level: the "
               "route space is unbounded; the 25 (source, target) kind pairs are enumerated by the case index, everything else is drawn.",
    level_note="Function level (white box): no sessions, no wire bytes (what is written to a connection vs ADJ_OUT is C01, packing is C11). Where the "
               "documents leave a choice the reference admits the whole set (see assumptions). VRF peers, RTC, LLGR, add-path, next-hop options of export policies "
               "and families other than IPv4/IPv6 unicast are not exercised; stored routes are announcements (withdrawals carry no attributes).",
    technique="runtime differential monitor (independent export / inbound reference vs real rewriting and filtering code) + byte-level snapshot non-interference "
              "monitor + race-detector run of concurrent exports",
    rule="table case = one stored route (root / clone / overlay form) learned from a source of kind idx mod 5, exported to a target of kind (idx/5) mod 5 and to a second "
         "random target (2 evaluations); server case = one router with 7-9 real peers (2 eBGP, 2 iBGP, 2 RR clients, 1 RS client, 2 confederation members), 24 "
         "(source, target) exports each through filterpath and the whole pipeline (25% with an `old` best from another source) + 12 inbound UPDATEs through "
         "peer.handleUpdate; race case = 4 targets x 3 concurrent exports of one stored route. An export is non-trivial iff the target is another router than the source; "
         "distinct by (source kind, target kind, option set, attribute shape: AS_PATH segment mix, private-AS positions, own-AS count, 4-octet ASNs, next-hop form, "
         "MED/LOCAL_PREF/RR attributes/communities, unknown-attribute flag classes)",
    assumptions=["the AS the router presents on a session is the local-as option if set, the confederation identifier towards peers outside the confederation, else the global AS",
                 "e2e: half of the odd-numbered neighbours run IPv6 sessions; after the first judgement 2-3 neighbours lose their session and the same speaker (same AS, router id, neighbour address) "
                 "comes back over ANOTHER local address of the router (IPv4 resp. IPv6); what they are sent then is judged against the local address of THAT session",
                 "the peer kind of a neighbour is the type of the actual session: one neighbour in five is configured WITHOUT peer-as (not inside a confederation), its type and AS are known only "
                 "from the peer's OPEN (State.PeerType / State.PeerAs; Config.PeerType stays EXTERNAL); units that run no session reproduce what fsm.stateChange records at ESTABLISHED",
                 "AS_PATHs are compared up to segmentation of adjacent AS_SEQUENCE / AS_CONFED_SEQUENCE segments (towards iBGP exact); no produced segment may be empty or longer than 255",
                 "remove-private-as follows the openconfig text (every private ASN, RFC 6996 ranges, all -> deleted / replace -> local AS); order relative to replace-peer-as undocumented: both orders admitted; "
                 "whether it touches confederation segments towards a member-AS peer undocumented: both admitted",
                 "replace-peer-as happens before the AS-loop test towards the peer (that is the purpose of the option); called on its own, the package-level filterpath sees the stored path",
                 "accepted both ways because the property/RFCs leave it open: next hop of a locally originated route with a configured next hop towards eBGP; next hop, LOCAL_PREF and MED towards a "
                 "confederation member (RFC 5065 5 allows passing them); MED of locally originated routes and of iBGP routes with an empty AS_PATH towards eBGP; LOCAL_PREF after UpdatePathAttrs alone "
                 "(stripping is done by pkg/server and checked in unit 'server'); ORIGINATOR_ID/CLUSTER_LIST on routes not learned over iBGP when sent to an RR client; unknown optional non-transitive "
                 "attributes towards iBGP (RFC 4271 forbids, the property names eBGP); unknown attributes without the optional bit; the Partial bit of forwarded unknown transitive attributes (counted); "
                 "a peer AS that occurs only in confederation segments; the own AS in the path towards iBGP peers; ORIGINATOR_ID = own router id or own cluster id received over eBGP; the global AS in a "
                 "path received on a local-as / confederation-identifier session",
                 "reflection client -> non-client must carry ORIGINATOR_ID and the cluster id (RFC 4456 6 + 8; the cluster id is the client's configured one or the router id)",
                 "the local cluster-id of a route received on an RR-client session is the id configured for that session (default: router id); on a non-client iBGP session it is the "
                 "router's cluster id when all its RR-client neighbours share one; a cluster id configured only on another neighbour of a router that reflects under several ids is left open "
                 "(RFC 4456 knows one CLUSTER_ID per reflector, gobgp configures it per neighbour)"],
    must_count=["nontrivial_exports", "snapshots_compared", "attribute_checks", "inbound_updates", "hasOwnASLoop_calls", "race_cases", "concurrent_exports", "exports_with_old_best",
                "stored:root", "stored:clone", "stored:overlay", "decision:advertised",
                "decision:suppressed:back-to-source-router", "decision:suppressed:nonclient-to-nonclient", "decision:suppressed:own-cluster-id-to-client", "decision:suppressed:peer-as-in-path",
                "inbound:clean", "inbound:own-as-beyond-allow-own-as", "inbound:own-as-within-allow-own-as", "inbound:own-router-id-as-originator", "inbound:own-cluster-id", "inbound:own-cluster-id-nonclient-session",
                "rule:prepend-local-as", "rule:prepend-confed-seq", "rule:confed-id-towards-non-member", "rule:remove-private-as:all", "rule:remove-private-as:replace", "rule:replace-peer-as",
                "rule:local-as", "rule:allow-as-path-loop-local", "rule:nexthop:self", "rule:nexthop:unchanged", "rule:nexthop:local-route-self", "rule:local-pref-removed", "rule:local-pref-default",
                "rule:foreign-med-removed", "rule:rr-attributes-removed", "rule:reflect-to-client", "rule:reflect-client-to-nonclient", "rule:rs-transparent", "rule:ibgp-aspath-unchanged"]
               + ["pair:%s->%s" % (a, b) for a in _C09_SRC for b in _C09_DST]
               # unit "e2e" (daemon level, on the wire)
               + ["e2e:c09:scenarios", "e2e:c09:nontrivial_scenarios", "e2e:c09:routes_announced", "e2e:c09:attribute_checks", "e2e:c09:decision:advertised",
                  "e2e:c09:decision:suppressed:back-to-source-router", "e2e:c09:decision:suppressed:nonclient-to-nonclient", "e2e:c09:decision:suppressed:peer-as-in-path",
                  "e2e:c09:inbound:clean", "e2e:c09:inbound:own-as-beyond-allow-own-as", "e2e:c09:inbound:own-as-within-allow-own-as",
                  "e2e:c09:inbound:own-router-id-as-originator", "e2e:c09:inbound:own-cluster-id",
                  "e2e:c09:rule:prepend-local-as", "e2e:c09:rule:nexthop:self", "e2e:c09:rule:nexthop:unchanged", "e2e:c09:rule:nexthop:local-route-self",
                  "e2e:c09:rule:local-pref-removed", "e2e:c09:rule:local-pref-default", "e2e:c09:rule:foreign-med-removed", "e2e:c09:rule:rr-attributes-removed",
                  "e2e:c09:rule:ibgp-aspath-unchanged", "e2e:c09:rule:reflect-to-client", "e2e:c09:rule:reflect-client-to-nonclient", "e2e:c09:rule:rs-transparent",
                  "e2e:c09:rule:remove-private-as:all", "e2e:c09:rule:remove-private-as:replace", "e2e:c09:rule:replace-peer-as", "e2e:c09:rule:local-as",
                  "e2e:c09:rule:unknown-nontransitive-dropped", "e2e:c09:rule:unknown-transitive-passed-on"]
               + ["%speer-as-unset:%s:%s" % (u, d, k) for u in ("", "e2e:c09:") for d in ("source", "target") for k in ("ebgp", "ibgp", "rrclient")]
               + ["peer-as-unset:inbound:%s" % k for k in ("ebgp", "ibgp", "rrclient")]
               + ["e2e:c09:rehomed:sessions:%s" % k for k in ("ebgp", "ibgp", "rrclient", "rsclient", "ipv4", "ipv6")]
               + ["e2e:c09:rehomed:judged:%s" % k for k in ("ebgp", "ibgp", "rrclient", "rsclient")] + ["e2e:c09:rehomed:routes_reached"]
               + ["e2e:c09:pair:%s->%s" % (a, b) for a in ("local", "ebgp", "ibgp", "rrclient") for b in ("ebgp", "ibgp", "rrclient")] + ["e2e:c09:pair:rsclient->rsclient"]
               + ["e2e:c09:reached:%s->%s" % (a, b) for a in ("local", "ebgp", "ibgp", "rrclient") for b in ("ebgp", "ibgp", "rrclient") if (a, b) != ("ibgp", "ibgp")]
               + ["e2e:c09:reached:rsclient->rsclient"],
    min_nontrivial=1000,
    units=[dict(name="table", harness="t_table", files=["common_", "c09_"], run="TestVerifC09",
                shards=dict(quick=16, thorough=16), timeout_s=dict(quick=600, thorough=5400)),
           dict(name="table_race", harness="t_table", files=["common_", "c09_"], run="TestVerifC09Race", race=True,
                shards=dict(quick=8, thorough=16), timeout_s=dict(quick=900, thorough=5400)),
           dict(name="server", harness="t_server", files=["c09_"], run="TestVerifC09",
                shards=dict(quick=16, thorough=16), timeout_s=dict(quick=900, thorough=5400)),
           dict(name="e2e", harness="t_server", files=["sim_", "e2e_"], run="TestVerifE2E_C09",
                shards=dict(quick=16, thorough=16), timeout_s=dict(quick=900, thorough=5400))],
)
