# registry entry for C16 (loaded by /verif/registry.py; PROPS is predefined)
PROPS["C16"] = dict(
    level="exploration",
    level_text="Model-based runtime monitors. Unit 'table': ROATable is driven through random Add/Delete/DeleteAll(source) histories next to a "
               "plain list of records; List/Info are compared with the list and 50 routes per set (all AS_PATH tail shapes, 2- and 4-octet AS) are "
               "classified by ROATable.Validate, by RpkiValidationCondition.Evaluate (wired as pkg/server does: PolicyOptions.Validate = "
               "roaTable.Validate) and by an RFC 6811 brute force over the list. Unit 'server': roaManager is driven with PDU sequences per cache "
               "through its real event channel (white box, and over loopback TCP through gobgp's own tryConnect/established goroutines), with "
               "disconnects, reconnects, lifetime expiry, AddServer/DeleteServer/SoftReset/Disable/Enable, and a whole BgpServer is driven through "
               "AddRpki/ResetRpki/DeleteRpki and observed through ListRpkiTable/ListRpki/ListPath. Exploration: ROA sets x routes and PDU "
               "histories are sampled, aimed at overlaps, equal prefixes, max-length edges, AS 0, duplicates, unknown withdrawals, session changes.",
    level_note="The RTR reference keeps per cache a MUST set (announced, committed by End of Data, not withdrawn) and a MAY set for what RFC 8210 / the "
               "property leave open (data learned before the router issued a Reset Query, data of an expired or hard-reset cache, operations of a "
               "response cut short by a reset or disconnect); a table between the two is accepted. Lifetime expiry is produced by stopping a timer "
               "gobgp armed and still holds pending, then invoking that timer's own callback; timers expire in arming order. The loopback caches are "
               "harness code; v4-mapped IPv6 prefixes only appear in unit 'table'.",
    technique="runtime model-based monitor: brute-force RFC 6811 reference over a record list (table unit); per-cache MUST/MAY record-set model compared "
              "with ROATable.List / GetServers / ListRpkiTable / ListRpki / ListPath after every step of generated RTR histories (server unit)",
    rule="table case = one ROA history (0-30 records aimed at, 1-3 sources) + 50 routes; non-trivial iff >=1 route has a covering record; distinct by "
         "(record shape multiset, verdict signature). rtr case = one history of 8-48 steps over 1-3 caches (white box 60% / loopback TCP 40%); "
         "incl. cache restarts (reconnect + new session id + smaller record set) and withdrawals of records that differ in one field (prefix length with the same base address, max-length, AS) from announced or still-buffered ones; non-trivial iff the table changed at least twice; distinct by (transport, step-kind sequence). api case = one BgpServer with 1-2 loopback "
         "caches: load, routes, incremental updates, soft reset, DeleteRpki; distinct by trace",
    assumptions=["origin AS as in RFC 6811 sec. 2: last AS of a path ending in AS_SEQUENCE; local AS for an empty path or one ending in confederation segments "
                 "(only confederation-only paths are generated); NotFound for a path ending in AS_SET",
                 "RTR: operations of one response take effect in the order sent, at End of Data at the latest; a new session id at End of Data flushes the "
                 "cache's records; DeleteServer removes them; a record of cache A is independent of the same record announced by cache B",
                 "where the property is silent the model accepts both outcomes: records learned before a Reset Query / reconnect / operator reset may stay "
                 "or go; a cache away for its record lifetime may be flushed; a lifetime timer may never touch a cache that re-synchronised or was removed",
                 "Enable/Disable/Reset/SoftReset take a bare address; they are only exercised when one configured cache has that address"],
    must_count=["v_routes", "v_cover_1", "v_cover_many", "v_as0_covering", "v_as_match_but_too_long", "v_condition_evals", "v_shape_seq+set",
                "v_shape_confed-seq-only", "v_shape_empty", "v_origin_4octet", "t_delete_unknown", "t_delete_all", "t_add_duplicate",
                "compares", "compares_exact", "table_changes", "pdu_announce-v4", "pdu_announce-v6", "pdu_withdraw-v4", "pdu_withdraw-v6",
                "pdu_cache-response", "pdu_end-of-data", "pdu_near_miss_withdraw_of_pending",
                "pdu_near_miss_of_announced_record", "step_cache-restart", "t_delete_near_miss", "api_near_miss_withdrawals", "pdu_cache-reset", "pdu_serial-notify", "pdu_error-report", "step_new-session",
                "ev_connected", "ev_disconnected", "ev_lifetime_expiry", "router_reset_queries", "mgmt_delete_server", "mgmt_SoftReset",
                "api_table_compares", "api_listrpki_compares", "api_route_verdicts_covered", "api_DeleteRpki"],
    min_nontrivial=100,
    units=[dict(name="table", harness="t_table", files=["common_", "c16_"], run="TestVerifC16",
                shards=dict(quick=16, thorough=16), timeout_s=dict(quick=600, thorough=3600)),
           dict(name="server", harness="t_server", files=["c16_"], run="TestVerifC16",
                shards=dict(quick=16, thorough=16), timeout_s=dict(quick=600, thorough=5400))],
)
