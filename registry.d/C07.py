# registry entry for C07 (loaded by /verif/registry.py; PROPS is predefined)
PROPS["C07"] = dict(
    level="fault_enumeration",
    level_text="The whole daemon runs in virtual time (testing/synctest) with one neighbour whose speaker is scripted at byte level. Every sequence of up to "
               "three events of a 33-symbol alphabet (inbound connect; valid OPEN and 9 kinds of invalid OPEN; KEEPALIVE, UPDATE, ROUTE-REFRESH, NOTIFICATION; "
               "4 kinds of garbage header; remote close; silence aimed just below / at / just above the next timer and the hold timer in force; EnablePeer, "
               "DisablePeer, ShutdownPeer, ResetPeer hard and soft, DeletePeer; prefix-limit overrun) is applied to a passive peer from each of the start "
               "states Active, Idle (idle-hold running), OpenSent, OpenConfirm and Established. After every event the run waits for exact quiescence and "
               "compares everything gobgp wrote (type, NOTIFICATION code/subcode/data, virtual instant), connection closes, the WatchEvent peer-state stream "
               "with its instants, ListPeer (session/admin state, negotiated timers) and ListPath(GLOBAL/ADJ_IN) with the set of outcomes of c07Model, an "
               "executable non-deterministic model of the RFC 4271 section 8 state machine. PRNG walks of 4-12 events over random peer kinds and hold-time "
               "pairs, 20 single-connection scenarios on an active peer (gobgp's own connection, handed a pipe through the dial hook) and 142 connection-collision "
               "scenarios (all orders of {inbound accepted, outbound dialled, OPEN on inbound, OPEN on outbound} x both BGP-identifier orders, the variant without "
               "OPEN on the inbound connection, both OPENs written at one instant, repeated 16 times, and the steered variant in which gobgp's FSM goroutine is held at the yield point "
               "\"opensent\" (shared gate simOpenSentGate) until both OPENs are queued, so that gobgp's own collision code runs in either select branch, "
               "repeated 16 times) and 120 multi-session histories of one neighbour (the speaker's OPEN changes between sessions: Extended Message capability "
               "on/off over 2 and 3 sessions x 5 ways of ending a session x oversize probe of 4097 or 65535 octets, hold time 9/30/90/3 s rotating; every session "
               "is probed with well-formed UPDATEs of exactly 4096 octets and just above the 4096-octet limit, judged by what THIS session negotiated) complete it. Fault enumeration is the right "
               "level: the state machine is small, its faults are a finite alphabet, and virtual time makes timer instants exact.",
    level_note="The model is written from RFC 4271 (+ RFC 6608 FSM-error subcodes, RFC 4486/8203 Cease subcodes, RFC 6286 identifier rule); from gobgp it takes "
               "only the documented parameters the property leaves open (no Connect state, idle-hold 0 s / 5 s / 30 s after a reset, OpenSent hold 240 s, "
               "keepalive = hold/3, connect-retry jitter). Where the RFCs leave a choice the model returns both outcomes (see assumptions). Behaviour the "
               "RFCs do not admit but the model can follow ('recognised deviations') is reported under its own key and the run goes on, so that one "
               "deviation does not hide the rest of a sequence. RFC 7606 and graceful restart are out of scope; transports are net.Pipe.",
    technique="runtime model-based monitor: set of RFC-4271-model states consistent with the observed wire bytes / API views, advanced event by event at exact "
              "quiescence (synctest.Wait) in virtual time; independent edge monitor on the WatchEvent stream",
    rule="case = start-state prefix + event sequence (exhaustive part), or random configuration + start state + walk of 4-12 applicable events, or one "
         "active-peer / collision scenario. A sequence containing a message event while no connection can exist in any world the model admits is not run "
         "(it behaves like the shorter sequence without that event, which is enumerated); a run is cut at an event that turns out inapplicable. "
         "Non-trivial iff at least one state transition beyond the initial Idle->Active was observed; distinct by (start state, event-kind sequence, configuration)",
    exhaustive_note="Enumerated completely in BOTH tiers: all 33+33^2+33^3 = 37,059 event sequences of length <= 3 from each of the five start states "
                    "(Active, Idle, OpenSent, OpenConfirm, Established) on a passive iBGP peer with hold times 30 s (gobgp) / 9 s (speaker), minus the "
                    "sequences subsumed by a shorter one (counter sequences_subsumed_by_shorter); all 20 single-event scenarios on gobgp's outbound "
                    "connection; all 6 orders (+ the order without OPEN on the inbound connection) x 2 identifier orders of the four collision events. "
                    "Sampled: walks (quick 4,000, thorough 300,000); goroutine schedules of the simultaneous-OPEN collision scenarios (2 x 2 x 16 runs) and the select branch "
                    "taken in the steered collision scenarios (2 x 2 x 16 runs, both branches ready). Also complete: the 12 on/off patterns of the Extended "
                    "Message capability over 2 and 3 consecutive sessions x 5 session endings x 2 oversize lengths (multi-session histories).",
    assumptions=["a silent close is admissible where the RFCs say SHOULD or are silent: a refused / second inbound connection (optional Cease), a NOTIFICATION "
                 "received in OpenSent (FSM error or silent close), a valid second OPEN in OpenConfirm or Established, ShutdownPeer/ResetPeer while no "
                 "session is established (no-op)",
                 "EnablePeer in Idle may restart the idle-hold, let it run on, or start at once",
                 "keepalive and hold timer due at the same instant: KEEPALIVE before, after or without the hold-timer NOTIFICATION are all accepted",
                 "prefix-limit overrun leaves the peer in admin state PFX_CT (gobgp's documented behaviour) until EnablePeer",
                 "UPDATE / ROUTE-REFRESH messages written by gobgp are not compared (C01 does that)",
                 "the global table is configured with two families (ipv4/ipv6 unicast) to keep a bubble cheap"],
    must_count=["steps", "rib_listings", "transitions_observed", "cases_walk", "cases_active_peer", "collision_arose", "collision_avoided", "collision_inbound_silent", "collision_steered_gate_held", "cases_multi_session", "multi_oversize_accepted_when_negotiated", "multi_oversize_refused_when_not_negotiated", "multi_session_noext_after_ext", "multi_session_ext_after_noext", "multi_session_noext_after_noext", "multi_session_ext_after_ext",
                "cases_exhaustive_active_len3", "cases_exhaustive_idle_len3", "cases_exhaustive_opensent_len3", "cases_exhaustive_openconfirm_len3",
                "cases_exhaustive_established_len3",
                "edge_idle->active", "edge_active->opensent", "edge_opensent->openconfirm", "edge_openconfirm->established", "edge_established->idle",
                "edge_opensent->idle", "edge_openconfirm->idle", "edge_active->idle",
                "notif_1/1", "notif_1/2", "notif_1/3", "notif_2/1", "notif_2/2", "notif_2/3", "notif_2/6", "notif_4/0", "notif_5/1", "notif_6/1", "notif_6/2",
                "notif_6/3", "notif_6/4",
                "pair_established_prefix-limit", "pair_established_silence-hold-at", "pair_opensent_silence-hold-at", "pair_openconfirm_silence-hold-at",
                "pair_idle_silence-hold-at", "pair_idle_enable", "pair_established_delete", "pair_established_reset-hard", "pair_established_shutdown",
                "pair_established_disable"]
               + ["ev_" + e for e in ("connect", "open-valid", "open-badversion", "open-badas", "open-id0", "open-idself", "open-hold1", "open-hold2",
                                      "open-malformed-optparam", "open-unsup-optparam", "open-truncated", "keepalive", "update", "route-refresh", "notification",
                                      "garbage-marker", "garbage-len-short", "garbage-len-long", "garbage-type", "remote-close", "silence-next-below",
                                      "silence-next-at", "silence-next-above", "silence-hold-below", "silence-hold-at", "silence-hold-above", "enable", "disable",
                                      "shutdown", "reset-hard", "reset-soft", "delete", "prefix-limit", "outbound-connect")],
    min_nontrivial=1000,
    units=[dict(name="sim", harness="t_server", files=["sim_", "c07_"], run="TestVerifC07", env={"GOGC": "400"},
                shards=dict(quick=16, thorough=16), timeout_s=dict(quick=1800, thorough=14400))],
)
