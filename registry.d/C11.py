# registry entry for C11 (loaded by /verif/registry.py; PROPS is predefined)
PROPS["C11"] = dict(
    level="exploration",
    level_text="Runtime monitor with boundary sweeps: CreateUpdateMsgFromPaths is executed on generated change lists, every produced message is "
               "serialised under the session options (as sendMessageloop does), decoded by an independent RFC 4271/4760/7911/8277/8950 reader and "
               "applied to a pre-populated receiver table; the end state, the End-of-RIB markers and every message size are compared with a "
               "reference that applies the changes one at a time. Exploration is the right level: the input space (lists x attribute sizes x "
               "families x options) is unbounded; attribute sizes are swept so that single-route and filled messages land within 64 octets of the "
               "4096/65535 limit and attribute value lengths cross 255/256.",
    level_note="Function level only (the sender loop is checked by the session-level unit). Trusts the harness' own wire reader and size arithmetic; "
               "2-octet-AS re-encoding, MRT options and families other than IPv4/IPv6 unicast, labelled unicast and MPLS VPN are not generated. "
               "A route that cannot fit counts as 'reported' iff it is in a produced message whose Serialize returns an error (what the sender logs).",
    technique="runtime monitor: independent wire reader + receiver table vs one-at-a-time reference, size and End-of-RIB checks, panic guard",
    rule="case = one change list (kinds: mix of announce/withdraw/End-of-RIB/nil over 1-3 families with repeated keys; single routes whose own "
         "message is limit+d, |d|<=64; groups of equal-attribute routes whose NLRI octets fill k messages +-64; oversize routes learned over an "
         "extended-message session packed for 4096; large lists up to 10k (quick) / 50k (thorough) prefixes) x per-family ADD-PATH "
         "none/receive/send/both x extended message on/off x forced equal attribute hashes x several local path ids per prefix x path shapes "
         "(plain, MP_REACH last as learned, derived by Clone+set/del, AS prepended by Path.PrependAsn as on eBGP export); "
         "non-trivial iff >=2 messages were produced or a message/single route is within 64 octets of the limit or a key is repeated; distinct by "
         "(kind, families, ADD-PATH families, extended, message-count bucket, near-limit flags, repeat pattern, forced hash)",
    assumptions=["a receiver distinguishes routes by (family, NLRI without labels, path identifier as present on the wire)",
                 "a message whose Serialize fails is dropped and logged by the sender; nothing else reports an unsendable route",
                 "several identical End-of-RIB markers of one family in one list may be merged into one"],
    must_count=["messages_sent", "messages_within_64_of_limit", "messages_with_shared_attributes", "cases_with_repeated_key",
                "cases_with_2plus_messages", "eor_out", "cases_extended_message", "family_cases_addpath_on", "family_cases_addpath_off",
                # unit "e2e" (through the real sendMessageloop behind a slow reader)
                "e2e:c11:scenarios", "e2e:c11:nontrivial_scenarios", "e2e:c11:route_changes", "e2e:c11:messages_checked", "e2e:c11:updates_after_resume", "e2e:c11:messages_with_shared_attributes",
                "e2e:c11:messages_with_50plus_prefixes", "e2e:c11:messages_within_64_of_limit", "e2e:c11:routes_compared_with_last_action", "e2e:c11:routes_compared_with_adj_out",
                "e2e:c11:oversize_routes_skipped", "e2e:c11:eor_received", "e2e:c11:ev:announce:tiny", "e2e:c11:ev:announce:medium", "e2e:c11:ev:announce:large", "e2e:c11:ev:announce:near-limit",
                "e2e:c11:ev:announce:oversize", "e2e:c11:ev:withdraw", "e2e:c11:ev:group-announce", "e2e:c11:ev:group-withdraw", "e2e:c11:ev:late-target-paused-from-start",
                # second scenario kind of unit "e2e": several sessions of one neighbour with changing capabilities
                "e2e:c11:resession:scenarios", "e2e:c11:resession:nontrivial_scenarios", "e2e:c11:resession:sessions", "e2e:c11:resession:messages_checked",
                "e2e:c11:resession:sessions_with_more_than_4096_octets_of_nlri", "e2e:c11:resession:plain_sessions_that_had_to_split:after-extended-session",
                "e2e:c11:resession:plain_sessions_that_had_to_split:after-plain-sessions", "e2e:c11:resession:routes_compared_with_last_action",
                "e2e:c11:resession:routes_compared_with_adj_out", "e2e:c11:resession:flip:ext:on->off", "e2e:c11:resession:flip:ext:off->on",
                "e2e:c11:resession:flip:addpath:on->off", "e2e:c11:resession:flip:addpath:off->on", "e2e:c11:resession:flip:as4:on->off", "e2e:c11:resession:flip:as4:off->on",
                "e2e:c11:resession:ev:big-group-announce"]
               + ["e2e:c11:session:addpath=%s,ext=%s,gr=%s,late=%s" % (a, b, c, d) for a in ("false", "true") for b in ("false", "true") for c in ("false", "true") for d in ("false", "true")],
    units=[dict(name="table", harness="t_table", files=["common_", "c11_"], run="TestVerifC11",
                shards=dict(quick=16, thorough=16), timeout_s=dict(quick=900, thorough=7200)),
           dict(name="e2e", harness="t_server", files=["sim_", "e2e_"], run="TestVerifE2E_C11",
                shards=dict(quick=16, thorough=16), timeout_s=dict(quick=900, thorough=7200))],
)
