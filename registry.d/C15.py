# registry entry for C15 (loaded by /verif/registry.py; PROPS is predefined)
# --- C08 end
PROPS["C15"] = dict(
    level="exploration",
    level_text="Metamorphic two-run differential in virtual time (testing/synctest): run A = fresh daemon with policy program P1, 2-4 scripted speakers "
               "(eBGP / one iBGP / route-server clients / mixed) announce 20-200 IPv4+IPv6 routes, the policy is changed to P2 through the management API, "
               "the corresponding soft reset (ResetPeer soft in|out|both, one peer or all) or ROUTE-REFRESH from the speaker(s) follows, then the same reset "
               "once more; run B = fresh daemon with P2 in force before the first route. At exact quiescence Loc-RIB (global and per route-server client, "
               "path sets, attributes, best flag), ADJ_IN raw and with filtered flags, ADJ_OUT and every speaker's accumulated wire view must be identical; "
               "in ~30% of the pairs (50% of the ROUTE-REFRESH pairs, where the refresh is asked six times) the speakers keep announcing/replacing/"
               "withdrawing from their own goroutines (with scheduler yields at gobgp's lock-free points) while the change and/or the reset run and B is "
               "fed with the final route set. Every fourth case is a MULTI-ROUND HISTORY on one daemon: 2-4 policy changes in a row, each followed by a trigger "
               "drawn independently of the earlier rounds (ROUTE-REFRESH for all families at once or one family at a time, soft out / in / both, one peer or "
               "all); half of the later rounds take the previous round's change back (relax <-> tighten the same set / assignment / policy), so that routes "
               "first advertised by one kind of trigger must be withdrawn by another; after EVERY round all views are compared with a fresh daemon that had "
               "that round's program from the start. In half of these histories one ordinary eBGP neighbour is an ADD-PATH-send target (send-max 4 >= number of "
               "sources, speaker announces ADD-PATH receive; its wire view is compared by (prefix, attributes), policy changes are export-only there), so a "
               "reset has to withdraw some paths of a prefix and keep others. One case in nine is such a history on a VRF TOPOLOGY: 1-3 CE neighbours configured in VRFs red/blue "
               "(IPv4 sessions) next to 1-2 PE neighbours (VPNv4 sessions) whose routes use the same IP prefixes under several route distinguishers, "
               "importable into a VRF by route target or not (for one prefix at most one RD per VRF, gobgp has no per-VRF best path); triggers are "
               "ROUTE-REFRESH from a CE (IPv4) or PE (VPNv4) and soft out/in/both; the VRF tables are compared as well. Exploration: (P1, P2.., routes, "
               "triggers, schedule) are sampled; quick 480 pairs + 160 histories + 80 VRF histories (~710 rounds), thorough 30x.",
    level_note="Run B (gobgp itself under P2 from the start) is the reference: that a fresh evaluation applies the policy correctly is C10, that the "
               "Loc-RIB picks the right best path is C03. Route timestamps are made irrelevant: all routes of a run arrive at one virtual instant and the "
               "generated routes are totally ordered by the decision process (unique first AS per source, import prepend only of the left-most AS unless "
               "always-compare-med). For a reset aimed at one peer the change is confined to that peer (per-client assignment of a route-server client, "
               "or statements guarded by a neighbour set holding only that peer). A peer whose wire view already differs from gobgp's fresh ADJ_OUT "
               "before the change (run A) or in run B (that is property C01, counted under precondition_*) is left out of the wire comparison. In racing "
               "pairs the export policies for ordinary peers do not test AS_PATH (see c15:...:export-tests-as-path: gobgp judges an old best path by its "
               "stored, not its advertised attributes, which would blur every racing comparison). The read-back of the objects touched by the change must "
               "agree between run A and run B, otherwise the pair is inconclusive (harness model of the change API).",
    technique="runtime metamorphic monitor: state after (policy change + soft reset / route refresh) vs fresh daemon under the new policy, plus idempotence "
              "monitor on the repeated reset (views unchanged, every UPDATE a plain re-advertisement), at exact quiescence in virtual time",
    rule="case = one (topology, routes, P1, change, reset) pair: P1 = 6-7 defined sets per direction (prefix sets with mask ranges, neighbour, AS-path "
         "single-AS forms + regexps, community), 4-7 policies x 1-3 statements per direction (conditions: the sets with any/all/invert, as-path-length, "
         "community-count; actions accept/reject/continue + community add/remove/replace, MED set/+/-, local-pref, AS-path prepend, next-hop), "
         "assignments global and per route-server client with either default; change kind in {assign-set, assign-add, assign-del, default-flip, "
         "defset-add, defset-del, defset-replace, policy-add-stmt, policy-del-stmt} x {import, export, both}; non-trivial iff gobgp's own states under "
         "P1 and under P2 on the same inputs differ on >=1 route; distinct by (changed-verdict pattern set, reset kind, change kind(s), racing); a history round is non-trivial iff the state before the "
         "round and the fresh daemon under the round's program differ on >=1 route, distinct by (pattern set, trigger, previous trigger, change kinds). "
         "Violation keys of round k>=2 carry ':after-<previous trigger>', those of VRF topologies ':vrf'",
    assumptions=["'the current policy' is what the management API reports after the change (AddDefinedSet with replace = the set now has the new members; "
                 "AddPolicyAssignment appends; AddPolicy on an existing policy appends statements; DeletePolicy/DeleteDefinedSet without 'all' remove the named members)",
                 "a repeated reset may re-send routes, but only as they are already held by the peer (no withdraw of a held route, no changed attributes, no new route)",
                 "DeletePolicyAssignment(all), deleting sets/policies/statements entirely, ADD-PATH sessions, VRF/VPN families and locally originated routes are not generated"],
    must_count=["nontrivial_pairs", "pairs_equal", "repeat_checks", "racing_cases", "routes_compared",
                "vrf_histories", "vrf_rounds_equal", "vrf_nontrivial_rounds", "vrf_round_reset_route-refresh_all", "vrf_round_reset_route-refresh_one",
                "vrf_round_reset_soft-out_all", "vrf_round_reset_soft-out_one", "vrf_round_reset_soft-in_all", "vrf_round_reset_soft-both_all",
                "rounds_with_addpath_target", "rounds_addpath_target_soft-out", "rounds_addpath_target_soft-both", "rounds_addpath_target_route-refresh",
                "histories", "rounds_equal", "nontrivial_rounds", "rounds_taking_previous_change_back", "rounds_refresh_per_family",
                "round_soft-out_after_route-refresh", "round_route-refresh_after_route-refresh", "round_route-refresh_after_soft-out",
                "round_soft-both_after_route-refresh", "round_soft-in_after_soft-out", "round_soft-out_after_soft-in",
                "reset_soft-in_one", "reset_soft-in_all", "reset_soft-out_one", "reset_soft-out_all", "reset_soft-both_all", "reset_route-refresh_one", "reset_route-refresh_all",
                "change_assign-set_import", "change_assign-add_import", "change_assign-del_import", "change_default-flip_import", "change_defset-add_import",
                "change_defset-del_import", "change_policy-add-stmt_import", "change_policy-del-stmt_import",
                "change_assign-set_export", "change_assign-add_export", "change_assign-del_export", "change_default-flip_export", "change_defset-add_export",
                "change_defset-del_export", "change_policy-add-stmt_export", "change_policy-del-stmt_export",
                "pattern_in:accept->reject", "pattern_in:reject->accept", "pattern_in:attrs-changed", "pattern_out:accept->reject", "pattern_out:reject->accept",
                "pattern_out:attrs-changed", "topology_plain", "topology_route_server", "topology_mixed"],
    min_nontrivial=20,
    units=[dict(name="sim", harness="t_server", files=["sim_", "c15_"], run="TestVerifC15",
                shards=dict(quick=16, thorough=16), timeout_s=dict(quick=1200, thorough=10800))],
)
