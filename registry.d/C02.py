# C02 — RIBs hold exactly the latest un-withdrawn route per source and path-id.
#
# Two layers. Layer A (table level: units "table" and "table_race") is registered here. Layer B (daemon level, histories on
# the server simulator) is added by appending one more dict to _C02_UNITS (e.g. dict(name="sim", harness="t_server",
# files=["sim_", "c02_"], run="TestVerifC02", ...)) and its counters to _C02_MUST; rule / level_text already cover both.
_C02_UNITS = [
    dict(name="table", harness="t_table", files=["common_", "c02_"], run="TestVerifC02",
         shards=dict(quick=16, thorough=16), timeout_s=dict(quick=900, thorough=10800)),
    # concurrent histories only, under the race detector (the quick tier runs 4 concurrent cases inside unit "table", without the detector)
    dict(name="table_race", harness="t_table", files=["common_", "c02_"], run="TestVerifC02", race=True, tiers=["thorough"],
         env={"VERIF_C02_RACE": "1"}, gomaxprocs=[4, 8, 16], shards=dict(quick=4, thorough=8), timeout_s=dict(quick=900, thorough=10800)),
    # layer B (maintainer): daemon-level histories on the server simulator, compared through ListPath/ListPeer/GetTable/WatchEvent
    dict(name="sim", harness="t_server", files=["sim_", "c01_", "c02_"], run="TestVerifC02Sim",
         shards=dict(quick=16, thorough=16), timeout_s=dict(quick=1800, thorough=10800)),
    # linearizability side-check (porcupine): concurrent management clients (AddPath/DeletePath/ListPath) on a real BgpServer in REAL time
    # (no synctest bubble: goroutine scheduling is the point), per-prefix register model; shards run with different GOMAXPROCS
    dict(name="lin", harness="t_server", files=["sim_", "c02lin_"], run="TestVerifC02Lin", gomaxprocs=[2, 4, 8, 16],
         shards=dict(quick=8, thorough=8), timeout_s=dict(quick=1800, thorough=10800)),
]
_C02_MUST = (
    ["ops", "full_comparisons", "comparisons_after_change", "dest_checks_loc", "dest_checks_adj", "counter_checks", "adj_tableinfo_checks",
     "loc_info_checks", "stream_comparisons_with_best", "lookups_with_result", "concurrent_cases", "concurrent_reader_rounds",
     "chains_len_2", "chains_len_3-4", "chains_len_5+", "cases_fold_bits_off", "cases_fold_bits_0", "cases_fold_bits_1", "cases_fold_bits_2",
     "empty_destinations_kept_for_allocated_local_ids", "rt_index_routes_checked", "select_collision_probe"] +
    ["op_" + k for k in ("announce", "replace", "replace-same", "burst", "withdraw", "withdraw-duplicate", "withdraw-unknown",
                         "flip-to-rejected", "flip-to-accepted", "peer-down", "local-delete-all", "stale-all", "drop-stale", "llgr-stale-or-drop")] +
    ["lookup_loc_" + k for k in ("exact", "exact-by-address", "longer", "shorter", "vpn-exact", "vpn-longer", "vpn-shorter",
                                 "vpn-exact-any-rd", "vpn-longer-any-rd", "vpn-shorter-any-rd", "evpn-route-type", "whole-table")] +
    ["lookup_adj_" + k for k in ("exact", "longer", "shorter")] +
    ["adj_in_comparisons", "loc_rib_comparisons", "counter_comparisons", "gettable_comparisons", "lookup_comparisons", "watcher_comparisons",
     "watcher_events", "ev_delete-peer", "ev_re-add-peer", "ev_flap", "ev_reestablish", "ev_burst"] +
    # unit "lin"
    ["histories_linearizable", "joint_histories_checked", "cases_with_overlapping_writes_on_one_prefix", "ops_overlapping_another", "read_write_overlaps_same_prefix",
     "write_overlap_add/add", "write_overlap_add/del-uuid", "op_add", "op_del-uuid", "op_del-path", "op_del-all", "op_list", "op_list-all",
     "del_uuid_ok", "del_uuid_error_no_such_uuid", "list_value", "list_absent", "cases_with_speakers", "peer_paths_seen_in_list_replies",
     "cases_mixed_family"]
)

PROPS["C02"] = dict(
    level="exploration",
    level_text="Model-based runtime monitor in two layers. Table level (units 'table', 'table_race'): the real Adj-RIB-In and Loc-RIB code (AdjRib.Update/"
               "Drop/DropStale/StaleAll/MarkLLGRStaleOrDrop, TableManager.Update -> destination.Calculate -> deleteDest, Table.Select/Info, "
               "Update.GetChanges) is driven with random histories of 10^3-10^5 operations over 15 destinations shared by 2-5 sources and compared, after "
               "every operation (what it touched) and every few operations (everything), with a naive reference (maps and linear scans): content per "
               "(source, path id), counters, summaries, exact/longer/shorter lookups by plain prefix arithmetic, and the best-path notification stream "
               "replayed into an empty table; the destination key is folded to 0-3 bits in 3 of 4 cases so that collision chains of up to 6 NLRIs are "
               "exercised; a concurrent variant (one goroutine per source, a reader alongside, in the thorough tier also under the race detector) compares "
               "the final state. Daemon level: the same reference against ListPath/ListPeer/GetTable/WatchEvent over simulator histories. Exploration is "
               "the right level: histories x interleavings are unbounded; the pool is small so that every operation meets existing state.",
    level_note="Table level: the harness plays pkg/server's part between Adj-RIB-In and Loc-RIB (a rejected route reaches the Loc-RIB as a withdrawal; "
               "lists returned by Drop/DropStale/StaleAll/MarkLLGRStaleOrDrop are propagated path by path), so pkg/server's own glue is only covered by the "
               "daemon-level unit. Order inside a destination is observed only as 'best = head of the list, list = permutation of the model's set' "
               "(the decision process is C03). True 64-bit FNV collisions are simulated by the fold hook. While Table.Select panics on a result with two "
               "destinations under one key (reported by a probe on every run), lookups whose result would hold such a pair are left out of the histories. "
               "Paths with NoImplicitWithdraw, next-hop invalidation, VRFs and route-server tables are not exercised.",
    technique="runtime model-based monitor: naive reference RIB (per source map (destination, path id) -> route) vs. the real tables after every step of "
              "generated histories; best-path notifications replayed into a consumer table; race detector on a concurrent variant",
    rule="case = one history over 15 destinations (6 IPv4, 3 IPv6, 3 VPNv4, 3 EVPN) and 2-5 sources (local, API-local, eBGP, iBGP, second session to the same "
         "router; ADD-PATH ids 0-3 per source at random), operation kinds announce / replace / replace-same / burst (several routes and withdrawals in one "
         "UPDATE, keys repeated) / withdraw / duplicate withdraw / withdraw of an unknown route / rejected<->accepted flip / peer-down (family subsets) / "
         "delete-all of local routes / stale-all / drop-stale / LLGR stale-or-drop, key folded to off/0/1/2/3 bits; 1 case in 16 runs one goroutine per source "
         "concurrently. A comparison is one evaluation; it is non-trivial iff the table content changed since the previous one; distinct by (operation-kind "
         "multiset of the window since the previous comparison, longest-chain bucket). Daemon level: histories on the server simulator.",
    assumptions=["a route marked rejected (AS loop / ORIGINATOR_ID) stays in the Adj-RIB-In and is withdrawn from the Loc-RIB, like an import-policy reject",
                 "route content = serialised path attributes in ascending type order; two routes of one source with equal content are the same route for a best-path consumer",
                 "a destination without routes may stay in the Loc-RIB table while local path ids other than 0 are allocated in it (deleteDest); it must not be "
                 "counted by Info nor returned with routes by lookups",
                 "the route-target index of the VPN tables (GetPathsByRT) is a lookup over the Loc-RIB: it may return fewer routes than stored, never one that is not stored",
                 "LLGR: a route carrying NO_LLGR is removed, every other route gets LLGR_STALE appended to its communities",
                 "SelectionOptions / UseMultiplePaths at their defaults; the key fold hook is process-global: cases of one shard run strictly one after the other"],
    must_count=_C02_MUST,
    min_nontrivial=50,
    units=_C02_UNITS,
)
