# registry entry for C10 (loaded by /verif/registry.py; PROPS is predefined)
PROPS["C10"] = dict(
    level="exploration",
    level_text="Differential runtime monitor at function level: random policy programs are loaded into a real RoutingPolicy through the "
               "configuration path, read back (GetDefinedSet/GetPolicy/GetStatement/GetPolicyAssignment and the API conversion) and executed with "
               "RoutingPolicy.ApplyPolicy on random routes; verdict and resulting attributes are compared with an independent interpreter of "
               "docs/sources/policy.md that works on the configuration structs, and the stored route / earlier per-peer results are snapshotted "
               "(serialised attributes, NLRI, next hop, slice backing arrays up to capacity) around every evaluation. Exploration is the right level: "
               "the space of programs x routes is unbounded; the generator covers every documented condition and action type under every option.",
    level_note="Trusts Go's regexp as the meaning of a configured pattern. Where policy.md / the oc struct comments leave the outcome open the "
               "interpreter reports 'ambiguous' and the comparison is skipped (counted per reason under amb:*), see assumptions. The daemon-level "
               "confirmation (ListPath / per-peer wire view) is a separate unit.",
    technique="runtime differential monitor (ApplyPolicy vs. documented-model interpreter) + snapshot/compare non-interference monitor + configuration read-back comparison + edit-history monitor (random AddDefinedSet/DeleteDefinedSet/AddStatement/DeleteStatement/AddPolicy/DeletePolicy/Add|Set|DeletePolicyAssignment requests incl. requests that must be refused; model: refused = unchanged, accepted = exactly what it says; read-back + evaluation after every request)",
    rule="case = one program followed by an edit history of 6 requests (each followed by a full read-back and 2 routes x 2 evaluations against the model; requests the documents give no meaning end the history); the program: (1-3 defined sets per type, 1-4 policies x 1-4 statements with 0-5 of the 15 condition types and any subset of the 8 "
         "modification actions + disposition, assignments for global and two neighbours, both directions, defaults ''/accept/reject) x 20 routes "
         "(v4/v6, local/internal/external, all attributes, slices with cap>len) x 2 evaluations (different assignment/direction/peer); an evaluation "
         "is non-trivial iff at least one statement applied or the default decided after at least one statement was evaluated; distinct by "
         "(condition types of the applied statements, actions applied, decided-by, verdict)",
    assumptions=["edit requests (cli-command-syntax.md 2.4/3): a refused request changes nothing; add appends / creates, del <member> removes the named members (absent ones are ignored), del removes the object unless it is in use, set replaces; an accepted request the documents give no meaning (assignment re-created after del, set referenced only by a statement outside any policy) ends the history unless the listed configuration contradicts itself",
                 "conditions of later statements see the route as modified by earlier applied statements (policy.md: the action is applied before the route proceeds to the next step)",
                 "the neighbor of a neighbor-set condition / peer-address is the peer the evaluation is for: the source on import, the destination on export, as pkg/server fills PolicyOptions.Info",
                 "a plain value in a community/ext-community/large-community set or remove list means exactly that value; anything else is a Go regexp searched in the canonical text",
                 "AS_PATH text is Quagga style (sequence 'a b', set '{a,b}', confed '(a b)' / '[a,b]'); '_' abbreviates (^|[,{}() ]|$) for every as-path-list entry, including the single-AS forms",
                 "only transitive extended communities take part in matching (RFC 7153); order of (ext/large) communities is not significant; an empty list equals an absent attribute; "
                 "AS_PATH segmentation of a sequence is not significant",
                 "left open by the documents and therefore skipped: MED +/- on a route without MED or leaving 0..2^32-1; last-as without leading AS_SEQUENCE; next-hop of another family; "
                 "next-hop unchanged / next-hop-in after an earlier next-hop action; self/peer-address without peer info; neighbor condition without neighbor; invert on a prefix set of "
                 "the other family; routes shorter than a prefix-list entry whose range reaches below its length; as-path-length with AS_SET/confed segments; local-pref-eq 100 without LOCAL_PREF; "
                 "an assignment id that was never configured; empty sets other than the neighbor set"],
    must_count=["programs", "compared", "snapshots_compared", "readback_statements", "readback_assignments", "dir:import", "dir:export",
                "assignment:global", "assignment:neighbor", "family:ipv4-unicast", "family:ipv6-unicast",
                "decided_by:statement:accept", "decided_by:statement:reject", "decided_by:default:accept", "decided_by:default:reject",
                "cond_true:prefix", "cond_true:neighbor", "cond_true:as-path", "cond_true:community", "cond_true:ext-community", "cond_true:large-community",
                "cond_true:as-path-length", "cond_true:community-count", "cond_true:origin", "cond_true:route-type", "cond_true:rpki", "cond_true:afi-safi-in",
                "cond_true:next-hop", "cond_true:local-pref-eq", "cond_true:med-eq",
                "action:community:add", "action:community:remove", "action:community:replace", "action:ext-community:add", "action:ext-community:remove",
                "action:ext-community:replace", "action:large-community:add", "action:large-community:remove", "action:large-community:replace",
                "action:med:replace", "action:med:add", "action:med:sub", "action:local-pref", "action:origin", "action:as-path-prepend:asn",
                "action:as-path-prepend:last-as", "action:next-hop:address", "action:next-hop:self", "action:next-hop:unchanged", "action:next-hop:peer-address",
                "edits_accepted", "edits_refused", "edit_refused:del-statement-kinds", "edit_refused:add-statement", "edit_refused:add-policy-new", "edit_refused:add-policy-refer",
                "edit_refused:del-policy", "edit_refused:del-defined-set", "edit_refused:add-assignment", "edit_accepted:del-statement-kinds", "edit_accepted:add-statement",
                "edit_accepted:add-policy-refer", "edit_accepted:add-policy-new", "edit_accepted:del-policy-statement", "edit_accepted:del-defined-set-member",
                "edit_accepted:add-defined-set", "edit_accepted:set-defined-set", "edit_accepted:set-assignment", "edit_accepted:del-assignment-policy",
                # unit "e2e" (daemon level: ListPath views and the wire views of two targets)
                "e2e:c10:scenarios", "e2e:c10:nontrivial_scenarios", "e2e:c10:mode:rs", "e2e:c10:mode:plain", "e2e:c10:routes", "e2e:c10:import:accepted", "e2e:c10:import:rejected",
                "e2e:c10:import:decided_by:statement:accept", "e2e:c10:import:decided_by:statement:reject", "e2e:c10:import:decided_by:default:accept", "e2e:c10:import:decided_by:default:reject",
                "e2e:c10:export:decided_by:statement:accept", "e2e:c10:export:decided_by:statement:reject", "e2e:c10:export:decided_by:default:accept", "e2e:c10:export:decided_by:default:reject",
                "e2e:c10:cond_true:prefix:any", "e2e:c10:cond_true:prefix:invert", "e2e:c10:cond_true:neighbor:any", "e2e:c10:cond_true:neighbor:invert",
                "e2e:c10:cond_true:as-path:any", "e2e:c10:cond_true:as-path:all", "e2e:c10:cond_true:as-path:invert", "e2e:c10:cond_true:community:any", "e2e:c10:cond_true:community:all",
                "e2e:c10:cond_true:community:invert", "e2e:c10:cond_true:as-path-length",
                "e2e:c10:action:community:add", "e2e:c10:action:community:remove", "e2e:c10:action:community:replace", "e2e:c10:action:large-community:add", "e2e:c10:action:large-community:remove",
                "e2e:c10:action:large-community:replace", "e2e:c10:action:med:replace", "e2e:c10:action:med:mod", "e2e:c10:action:local-pref", "e2e:c10:action:as-path-prepend:asn",
                "e2e:c10:action:as-path-prepend:last-as", "e2e:c10:targets_differ", "e2e:c10:wire_routes_compared", "e2e:c10:listpath:adj-in", "e2e:c10:listpath:adj-in-filtered",
                "e2e:c10:listpath:loc-rib", "e2e:c10:listpath:adj-out"],
    units=[dict(name="table", harness="t_table", files=["common_", "c10_"], run="TestVerifC10",
                shards=dict(quick=16, thorough=16), timeout_s=dict(quick=900, thorough=7200)),
           dict(name="e2e", harness="t_server", files=["sim_", "e2e_"], run="TestVerifE2E_C10",
                shards=dict(quick=16, thorough=16), timeout_s=dict(quick=900, thorough=7200))],
)
