PROPS["C17"] = dict(
    level="exploration",
    level_text="The whole daemon runs in virtual time (testing/synctest) against scripted PE, RTC and CE speakers; PRNG histories of 40-200 events over "
               "three changing relations (VPNv4/EVPN routes with arbitrary route-target sets, 2-4 VRFs with overlapping import/export sets, RT "
               "memberships per peer) are executed and, at exact quiescence, every view (ListPath of the VPN tables and of each VRF, what each speaker "
               "holds according to the bytes gobgp wrote) is compared with a plain relational model. Exploration: histories are sampled, not enumerated.",
    level_note="Trusts gobgp's own UPDATE parser on the receiving side and the Loc-RIB's ranking of the paths of one destination (C02/C03): the model "
               "decides WHICH routes a view holds, the version is identified by a tag community. Attribute rewriting on export is not modelled. While a "
               "neighbour's documented rtc deferral is pending only 'nothing ineligible is held' is required. Every event is followed by synctest.Wait "
               "(no pile-up of events in the pipes; coalescing is C01's subject; concurrency comes from the race events and the yield hook), which also lets a difference be attributed to the event that caused it.",
    technique="runtime model-based monitor: relational reference model (routes x VRFs x memberships) vs ListPath(GLOBAL/VRF) and per-peer accumulated wire views at exact quiescence (synctest.Wait)",
    rule="case = one history (1-2 PE, 1-2 RTC, 0-2 CE speakers of kinds RR client / eBGP, with and without ADD-PATH receive and rtc deferral; 40-200 events: "
         "VPN announce/replace/withdraw/duplicate, membership announce/withdraw incl. default, duplicates, other origin AS, never-announced, import-policy "
         "rejected; AddVrf/DeleteVrf; API routes global and in a VRF; CE routes; flaps, for half of the PE speakers with graceful restart negotiated (routes retained as stale copies until the "
         "restart timer or the returning speaker's End-of-RIBs); soft-reset-in of any neighbour, with and without an attribute-modifying import policy; "
         "race events (an rtc speaker's membership announce/withdraw and another speaker's withdraw/replace/announce of VPN routes carrying that target written at the "
         "same instant from separate goroutines); Gosched-only scheduler yields at gobgp's lock-free points (recv, send, bucket, walk) in every history; ticks), compared every 5-20 events; a comparison is non-trivial "
         "iff >=1 membership or VRF change happened since the previous one; distinct by hash of (change-kind sequence, peer configuration)",
    assumptions=["route targets are compared by their 8 octets; 'transitive' is bit 0x40 of the type octet clear (RFC 4360/7153)",
                 "an RT membership counts when the import policy accepts it; the default membership is the zero-length NLRI 0:0/0",
                 "a speaker never gets back the best route it announced itself (normal export rule); all iBGP speakers are route-reflector clients; all eBGP speakers have distinct AS numbers",
                 "DeleteVrf is only exercised on VRFs without attached neighbours (gobgp refuses it otherwise); API routes outside a VRF never carry the RD of a local VRF",
                 "without zebra a VRF's label is 0 (Vrf.MplsLabel is read white-box as 'the VRF's label')",
                 "graceful restart as RFC 4724 helper: routes of a speaker that went down abruptly stay until its restart time is over or, once it is back, "
                 "until its End-of-RIB markers; routes still stale at a second restart go at once; no long-lived graceful restart; at the exact instant of the "
                 "restart timer gobgp's own PeerRestarting state decides whether the speaker was back in time",
                 "soft-reset-in changes nothing that is observable",
                 "net.Pipe transports, hold time 0"],
    must_count=["comparisons", "comparisons_nontrivial", "membership_changes", "vrf_changes", "vrf_table_comparisons", "routes_compared_global",
                "routes_compared_vrf_table", "routes_compared_rtc-peer", "routes_compared_pe-peer", "routes_compared_ce-peer",
                "vrf_originated_routes_checked", "peer_comparisons_in_deferral",
                "ev_vpn-announce", "ev_vpn-withdraw", "ev_vpn-duplicate", "ev_rtm-announce", "ev_rtm-withdraw", "ev_rtm-default-announce",
                "ev_rtm-withdraw-never-announced", "ev_rtm-announce-rejected-by-policy", "ev_rtc-eor", "ev_addvrf", "ev_delvrf",
                "ev_delvrf-with-local-routes", "ev_api-add-global", "ev_api-add-vrf", "ev_ce-announce", "ev_ce-withdraw", "ev_flap", "ev_reestablish", "ev_flap-graceful", "ev_gr-back-in-time", "ev_gr-timer-expired",
                "ev_gr-eor-ends-restart", "ev_soft-reset-in", "histories_with_modifying_import_policy",
                "ev_race", "ev_race-membership-announce", "ev_race-membership-withdraw", "ev_race-route-changes", "scheduler_yields",
                "ev_fam-l3vpn-ipv4-unicast", "ev_fam-l2vpn-evpn"],
    min_nontrivial=20,
    units=[dict(name="sim", harness="t_server", files=["sim_", "c17_"], run="TestVerifC17",
                shards=dict(quick=16, thorough=16), timeout_s=dict(quick=1800, thorough=10800))],
)
