# registry entry for C03 (loaded by /verif/registry.py; PROPS is predefined)
PROPS["C03"] = dict(
    level="exploration",
    level_text="Runtime monitor of the real Loc-RIB code (TableManager.Update -> destination.Calculate/insertSort, GetBestPath, GetMultiBestPath, Update.GetChanges) "
               "against an independent reference of the documented decision process (sequential elimination over the whole candidate set). Small-scope exhaustive "
               "inside each case: every permutation of the arrival order of the 2-5 candidates, 20 replace/withdraw interleavings ending in the same set, every "
               "pair and triple of routes for comparator sanity; exploration across cases: candidate sets are drawn from a grid built to tie at every step, "
               "under all 16 combinations of always-compare-med / ignore-as-path-length / external-compare-router-id / use-multiple-paths.",
    level_note="Where the documentation leaves a choice (confederation-member routes in the age/router-id steps, router-id between equally old eBGP routes, "
               "neighbouring AS of a path starting with AS_SET, age between local routes) the union over all readings is accepted; with MED not comparable across "
               "the candidates only membership in the admissible set (decision-process winner or winner of a pairwise tournament in some order) is required and "
               "order independence is not asserted. ORIGINATOR_ID/CLUSTER_LIST, IGP cost, weight, route-server views and sets larger than 5 are not exercised.",
    technique="runtime differential monitor (reference decision process + metamorphic order-independence + comparator total-preorder check) over generated candidate sets",
    rule="case = one candidate set of 2-5 routes from distinct sources (local, eBGP, iBGP, confederation member; optional earlier versions and transient routes), "
         "run through all arrival permutations (<=120), 20 interleavings and all ordered pairs, under the option combination case_index mod 16; non-trivial iff a "
         "reachable best exists and at least one step eliminated a candidate; distinct by (option combination, multiset of source kinds, sequence of deciding steps)",
    assumptions=["the documented order is the one in the property text / the comment in insertSort; confederation members are internal for eBGP-over-iBGP (RFC 5065, compareByASNumber comment)",
                 "router-id is the BGP identifier of the sending peer (no ORIGINATOR_ID)",
                 "SelectionOptions/UseMultiplePaths are process globals: cases run sequentially, 16 shards = 16 option combinations"],
    must_count=["candidate_sets", "arrival_orders", "interleavings", "pairs_observed", "triples_observed", "multipath_sets_with_several_members",
                "sets_med_comparable", "sets_med_not_comparable", "decided_at_med", "decided_at_age-routerid", "decided_at_neighbor-addr",
                "palette_confed+ibgp", "getchanges_streams_checked",
                # unit "e2e" (daemon level: sessions of every kind, with and without configured peer-as, ListPath best + passive observer)
                "e2e:c03:scenarios", "e2e:c03:nontrivial_scenarios", "e2e:c03:candidate_sets", "e2e:c03:rib_best_checked", "e2e:c03:observer_best_checked", "e2e:c03:confederation",
                "e2e:c03:options:always-compare-med=true", "e2e:c03:options:always-compare-med=false", "e2e:c03:options:ignore-as-path-length=true",
                "e2e:c03:options:external-compare-router-id=true", "e2e:c03:options:external-compare-router-id=false",
                "e2e:c03:med-regime:same-neighbor-as", "e2e:c03:med-regime:distinct-neighbor-as", "e2e:c03:med-regime:equal-med", "e2e:c03:med-regime:free",
                "e2e:c03:decided_at_local-pref", "e2e:c03:decided_at_local-origin", "e2e:c03:decided_at_as-path-len", "e2e:c03:decided_at_origin", "e2e:c03:decided_at_med",
                "e2e:c03:decided_at_ebgp-over-ibgp", "e2e:c03:decided_at_age-routerid", "e2e:c03:decided_at_neighbor-addr",
                "e2e:c03:candidate-kind:local", "e2e:c03:candidate-kind:ebgp", "e2e:c03:candidate-kind:ibgp", "e2e:c03:candidate-kind:confed",
                "e2e:c03:candidate-kind:ebgp/peer-as-unset", "e2e:c03:candidate-kind:ibgp/peer-as-unset"],
    units=[dict(name="table", harness="t_table", files=["common_", "c03_"], run="TestVerifC03",
                shards=dict(quick=16, thorough=16), timeout_s=dict(quick=600, thorough=5400)),
           dict(name="e2e", harness="t_server", files=["sim_", "e2e_"], run="TestVerifE2E_C03",
                shards=dict(quick=16, thorough=16), timeout_s=dict(quick=900, thorough=5400))],
)
