# registry entry for C01 (loaded by /verif/registry.py; PROPS is predefined)
PROPS["C01"] = dict(
    level="exploration",
    level_text="The whole daemon runs in virtual time (testing/synctest) against 3-5 scripted speakers of mixed kinds; PRNG histories of 40-160 events "
               "(announce, replace, withdraw, duplicate withdraw, session flap, re-establish, API add/delete, slow reader on/off, clock ticks, wire "
               "ROUTE-REFRESH, peer delete / re-add, concurrent bursts from several speakers, a session closed while a burst is propagated to it; "
               "optional export policy; schedules steered by the Gosched-only yield hook at the recv/send/bucket/walk/target points) are "
               "executed and, at exact quiescence, everything each peer has been sent (decoded from the bytes written to its connection and applied in "
               "order) is compared with a fresh ADJ_OUT evaluation; for ADD-PATH peers with the fresh set of eligible paths (held paths must be "
               "eligible under the same stable id with the same attributes, per prefix exactly min(send-max, eligible) held). "
               "7200 histories in the quick tier, 72000 in thorough. Exploration: histories x interleavings are sampled, not enumerated.",
    level_note="Trusts gobgp's own UPDATE parser on the receiving side and ListPath(ADJ_OUT) (fresh filterpath/export evaluation over the current table) "
               "as the reference of what should be advertised; that the Loc-RIB itself is right is C02/C03.",
    technique="runtime monitor: per-peer accumulated wire view vs fresh ADJ_OUT evaluation at exact quiescence (synctest.Wait) over PRNG event histories in virtual time",
    rule="case = one history (3-5 peers of kinds eBGP / two sessions to one AS / iBGP / RR client / RS client, 40-160 events, compared every 5-20 events); "
         "a comparison is non-trivial iff >=1 UPDATE reached that peer since the previous comparison; distinct by (peer kind, add-path, event-kind multiset hash)",
    assumptions=["net.Pipe transports (no kernel buffering): back-pressure and coalescing are more frequent than on TCP, never less",
                 "hold time 0 on all sessions (no keepalives)"],
    must_count=["quiescent_comparisons", "comparisons_after_updates", "addpath_comparisons", "ev_announce", "ev_withdraw", "ev_flap", "ev_reestablish", "ev_burst", "ev_flap-during-burst", "ev_route-refresh", "ev_delete-peer", "ev_add-peer", "histories_with_yield_hook", "histories_with_export_policy", "yield_points_passed"],
    min_nontrivial=20,
    units=[dict(name="sim", harness="t_server", files=["sim_", "c01_"], run="TestVerifC01",
                shards=dict(quick=16, thorough=16), timeout_s=dict(quick=1800, thorough=10800))],
)
