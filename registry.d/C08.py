# registry entry for C08 (loaded by /verif/registry.py; PROPS is predefined)
PROPS["C08"] = dict(
    level="exploration",
    level_text="Two runtime monitors against one reference negotiation (c08Negotiate, ~100 lines written from the property text and RFC 4271 s4.2/4.4/6.2, "
               "4760 s8, 7911 s4, 6793, 8654 - not from fsm.go). Unit 'fn' (white box): the real handleOpen/ValidateOpenMsg, stateChange/open2Cap/CreateRfMap "
               "and buildopen/capabilitiesFromConfig run on a minimally constructed fsm for neighbour configurations x byte-level OPENs (8 OPENs one after "
               "the other on the same fsm, so state of an earlier session cannot leak). Unit 'sim': a whole BgpServer in virtual time (testing/synctest), "
               "the neighbour configured through AddPeer, a byte-level scripted speaker; per session the OPEN bytes gobgp sent, refusal NOTIFICATIONs, "
               "ListPeer + fsm state, one probe UPDATE per family encoded under the reference's options, every UPDATE gobgp emits decoded from raw bytes "
               "(path ids, AS_PATH width/AS4_PATH, LOCAL_PREF, size), the 4096/extended-message length gate in both directions (exactly 4096, 4097.., "
               "65535, oversize OPEN/KEEPALIVE), KEEPALIVE instants and the hold-timer expiry instant are compared with the reference. "
               "Exploration is the right level: configurations x capability multisets are unbounded; generators aim at duplicated/conflicting ADD-PATH "
               "tuples, absent MP capability, foreign families, unknown capabilities, hold 0/1/2/3/65535, AS_TRANS + 4-octet AS, split optional parameters.",
    level_note="Where the RFCs / the property leave a choice the whole admissible set is accepted: several ADD-PATH tuples for one family (first, last or "
               "union), undefined Send/Receive values (family unconstrained), keepalive = hold/3 or the configured interval when our own hold time is in "
               "force or the configured one is not longer than hold/3 (whole seconds, never below 1 s), keepalive schedule anchored at establishment or at "
               "the last UPDATE sent, a keepalive tick at the very instant of expiry, either refusal code when several apply. Hold time 0 on gobgp's side is "
               "patched in white-box (the API maps 0 to the default; a configuration file can say 0). With the route-target family negotiated gobgp's "
               "export filter withholds routes without matching route target, so only the rtc route itself is required outbound then. Oversize local "
               "routes (attributes > 4096) are only injected towards sessions that negotiated extended messages, and the speaker withdraws its own large probe "
               "route after it has been verified (packing such attributes for a 4096 session is C11). A connection closed without any answer to our OPEN is "
               "retried (another FSM event, e.g. the graceful-restart timer of the previous session, may win at that instant; only three silent closes in a row "
               "are reported) and second sessions are approached a quarter second off the grid on which gobgp's timers were armed.",
    technique="runtime differential monitor: reference negotiation vs (a) fsm state after the real handleOpen/stateChange, (b) wire behaviour of the whole daemon in virtual time "
              "(raw-byte OPEN/UPDATE readers, exact timer instants)",
    rule="fn case = one neighbour configuration (families subset of {ipv4/ipv6 unicast, l3vpn-ipv4, evpn, rtc} or unconfigured, add-path send/receive per family, "
         "hold unset/0/3/4/9/10/30/90 with or without configured keepalive, GR/LLGR, local-as, 2-/4-octet global AS, peer-as matching / 0 / mismatching) x 8 generated OPENs; "
         "sim case = one such configuration x 1-2 consecutive sessions, each with a generated OPEN, handshake variant (normal, OPEN > 4096, silent in OpenConfirm) and "
         "ending (silence until hold expiry after a last KEEPALIVE/UPDATE at a drawn offset, UPDATE for a non-negotiated family, UPDATE > 4096 without extended message, "
         "KEEPALIVE > 4096); in 1 of 4 cases the neighbour is not passive and the first session comes about through gobgp's own dialled connection (verifDial hook): alone, or in a "
         "connection collision (RFC 4271 s6.8) in which the speaker sends a DIFFERENT OPEN (same AS and BGP identifier, other hold time / capabilities) on the connection "
         "it opened itself - with both OPENs pending when opensent() selects (a surplus accepted connection whose Close() blocks parks the FSM goroutine meanwhile, so both "
         "select branches are taken) or with the dialled connection completing first; local BGP identifier above and below the peer's; the oracle is unchanged but applies to "
         "the OPENs exchanged on the SURVIVING connection; non-trivial iff the session reached Established or was refused with a NOTIFICATION; distinct by negotiation outcome "
         "(hold, keepalive, family set with add-path modes, as4, extmsg, peer type) or refusal code",
    assumptions=["RFC 7911 Send/Receive: 1 = able to receive, 2 = able to send; a family without MP capability on either side is not usable even if an ADD-PATH tuple names it",
                 "no MP capability at all from the peer means IPv4 unicast only (RFC 4760 s8 / RFC 4271)",
                 "the peer's AS is the 4-octet AS capability value when present, else the My AS field; only consistent OPENs (My AS = AS_TRANS or the same number) are generated",
                 "the Extended Message and 4-octet AS capabilities are not configurable in gobgp: 'we announced' is taken from the OPEN bytes gobgp actually sent",
                 "RFC 4271 s8.2.2: in OpenConfirm the hold timer runs with the negotiated value from the moment the OPEN was received",
                 "an UPDATE of exactly 4096 octets is acceptable on every session (RFC 4271 s4.1)",
                 "net.Pipe transports; all gobgp timers are virtual (testing/synctest), instants are compared exactly"],
    must_count=["fn_opens_built", "fn_established", "fn_refused", "fn_hold_zero", "fn_no_common_family",
                "sessions", "sessions_second_on_same_neighbour", "opens_checked", "established", "refused",
                "outcome_refused_1/2", "outcome_refused_2/2", "outcome_refused_2/6",
                "family_negotiated_ipv4-unicast", "family_negotiated_ipv6-unicast", "family_negotiated_l3vpn-ipv4-unicast", "family_negotiated_l2vpn-evpn", "family_negotiated_rtc",
                "probe_accepted_ipv4-unicast", "probe_accepted_ipv6-unicast", "probe_accepted_l3vpn-ipv4-unicast", "probe_accepted_l2vpn-evpn", "probe_accepted_rtc",
                "probe_accepted_with_path_id", "emitted_with_path_id", "emitted_without_path_id", "emitted_as_path_4octet", "emitted_as_path_2octet_with_as4_path",
                "emitted_family_ipv4-unicast", "emitted_family_ipv6-unicast", "emitted_family_l3vpn-ipv4-unicast", "emitted_family_l2vpn-evpn", "emitted_family_rtc",
                "addpath_send_negotiated", "addpath_receive_negotiated", "as4_negotiated", "as4_not_negotiated", "extmsg_negotiated", "extmsg_not_negotiated",
                "peer_internal", "peer_external", "peer_as_unconfigured", "no_common_family",
                "large_update_accepted_4096", "large_update_accepted_4097", "large_update_accepted_65535", "oversize_update_refused_1/2", "oversize_keepalive_refused_1/2",
                "emitted_above_4096", "bulk_tables_sent_within_4096",
                "hold_expiry_instants_checked", "keepalive_cadences_checked", "timing_hold_zero_checked", "openconfirm_silent",
                "conn_active", "conn_collision", "conn_collision-out-first", "collision_survivor_dialled", "collision_survivor_accepted",
                "cap_code_1", "cap_code_6", "cap_code_64", "cap_code_65", "cap_code_69", "cap_code_71", "cap_code_200"],
    min_nontrivial=200,
    units=[dict(name="fn", harness="t_server", files=["sim_", "c08_"], run="TestVerifC08Fn",
                shards=dict(quick=16, thorough=16), timeout_s=dict(quick=600, thorough=5400)),
           dict(name="sim", harness="t_server", files=["sim_", "c08_"], run="TestVerifC08Sim",
                shards=dict(quick=16, thorough=16), timeout_s=dict(quick=900, thorough=10800))],
)
