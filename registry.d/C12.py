# registry entry for C12 (loaded by /verif/registry.py; PROPS is predefined)
PROPS["C12"] = dict(
    level="exploration",
    level_text="The whole daemon runs in virtual time (testing/synctest) with the restarting peer R, a competitor announcing some of the same "
               "prefixes and one or two observers (LLGR-capable or not). PRNG scenarios span the GR/LLGR capability combinations of both sides x "
               "1-3 families (one never listed in the GR capability) x route sets (NO_LLGR, LLGR_STALE already attached) x 8 loss kinds x "
               "reconnection before / exactly at / after restart-time expiry or never x capability changes in the new OPEN x partial "
               "re-announcement with changed attributes x End-of-RIB order (or one marker withheld) x a second loss inside the window x further "
               "restarts of the same peer x LLGR times; 1 scenario in 6 puts gobgp in the restarting-speaker role (LocalRestarting, deferral timer). "
               "Every timer instant is exact in the bubble, so the observable state is sampled 1 ms before and exactly at every expected transition. "
               "Exploration is the right level: the space of event orders x timer instants is unbounded; the generator aims at every branch of "
               "RFC 4724 4.2, RFC 8538 and RFC 9494 the property text names.",
    level_note="The oracle is an independent event-driven lifecycle model (c12Model) fed with exactly the events the harness produces on the wire; "
               "where the RFCs and the property text name different instants (per-family End-of-RIB sweep vs. sweep at the last marker; long-lived "
               "timer running out while the session is re-established; connection attempt and restart timer at the same instant; start of the "
               "deferral timer; a configured neighbour that is not up yet) the whole admissible set is accepted. Families listed in the LLGR but "
               "not in the GR capability, a second loss while long-lived timers are still running, losses of the observers and the restarting "
               "role combined with the helper role are not generated.",
    technique="runtime model-based monitor: ListPath ADJ_IN/GLOBAL (presence, stale flag, LLGR_STALE, best path), ListPeer PeerRestarting and the "
              "observers' accumulated wire view, sampled at t-1ms and t around every model timer and after every event, compared with c12Model",
    rule="violation keys are c12:[after-capability-change:|after-earlier-llgr-phase:]<rule of the model that removed / keeps the route or lifecycle phase>:<what differs>; "
         "the optional context names scenarios in which the peer changed its GR/LLGR capabilities between sessions resp. the restart follows an "
         "earlier long-lived phase of the same peer (state gobgp carries across sessions). "
         "case = one scenario (helper role 5/6: up to three losses of R with everything that follows; restarting role 1/6: 2-4 neighbours with "
         "their own establishment / End-of-RIB times and a deferral time of 3-11 s); non-trivial iff at least one route was observed stale "
         "(helper) or at least one sample saw advertisements being withheld (restarting); distinct by (capability combination of both sides + "
         "restart-time class, loss kind, reconnection bucket) resp. (per-neighbour flags, release kind)",
    assumptions=["RFC 4724 4.2 as written: families listed in the peer's GR capability are retained and marked stale, routes already stale at a "
                 "consecutive restart are deleted, stale routes of a family that is missing / has the F bit clear in the new OPEN (or when the new "
                 "OPEN has no GR capability) are deleted at re-establishment, the restart timer runs from the loss to re-establishment",
                 "RFC 8538: a NOTIFICATION other than Cease/Hard Reset is a qualifying loss iff both sides set the N bit; administrative "
                 "shutdown / reset / disable and de-configuration on the helper are not",
                 "RFC 9494: the LLGR capability counts only together with the GR capability and with long-lived-enabled on the helper; at "
                 "restart-time expiry (at once for restart time 0) routes of the families in it stay with LLGR_STALE attached (NO_LLGR ones "
                 "and other families are dropped) until the family's long-lived stale time is over; LLGR_STALE routes lose against any other "
                 "route and are not sent to a neighbour that did not send the LLGR capability",
                 "capabilities are those of the current session's OPEN; PeerRestarting in ListPeer is true exactly while stale routes of a lost "
                 "session are being retained (checked only while the session is down or after every End-of-RIB arrived)",
                 "restarting role: nothing is sent to a LocalRestarting neighbour before the earliest admissible release (every established GR "
                 "peer without the R bit has sent all its markers, or the neighbour's session is deferral-time old) and everything has been "
                 "sent once its session is deferral-time old; advertising to neighbours without GR configuration, repeating the table or the "
                 "End-of-RIB marker at a later release are only counted (restart_* counters), the property text does not exclude them"],
    must_count=["samples", "helper_scenarios", "restarting_scenarios", "loss_close", "loss_hold-expiry", "loss_notification", "loss_hard-reset",
                "loss_admin-shutdown", "loss_admin-disable", "loss_admin-reset", "loss_peer-delete", "loss_qualifying", "loss_non_qualifying",
                "bucket_before", "bucket_at", "bucket_after", "bucket_never", "tr_stale-marked", "tr_stale-expired", "tr_stale-refreshed",
                "tr_stale-swept-at-eor", "tr_all-eor", "tr_llgr-entered", "tr_llgr-expired", "tr_no-llgr-dropped", "tr_unlisted-family-dropped",
                "tr_deferral-released-eor", "tr_deferral-released-timer", "restart_withheld_samples", "second_loss_inside_window",
                "eor_withheld", "reconnect_inside_llgr", "capabilities_changed_between_sessions", "peer_state_samples"],
    min_nontrivial=50,
    units=[dict(name="sim", harness="t_server", files=["sim_", "c12_"], run="TestVerifC12",
                shards=dict(quick=16, thorough=16), timeout_s=dict(quick=900, thorough=10800))],
)
