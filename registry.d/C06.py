# registry entry for C06 (loaded by /verif/registry.py; PROPS is predefined)
PROPS["C06"] = dict(
    level="fault_enumeration",
    level_text="Fault enumeration at two layers. Layer 1 runs gobgp's real receive loop (fsmHandler.recvMessageloop: recvMessageWithError -> ParseBGPBody -> "
               "ValidateUpdateMsg -> handlingError -> NOTIFICATION or callback, then table.ProcessMessage as peer.handleUpdate calls it) on UPDATEs laid out "
               "octet by octet by the harness: 40 well-formed base UPDATEs (v4, v6 MP_REACH, mixed, withdraw-only, optional attributes, ADD-PATH) x a "
               "catalogue of 129 faults (per attribute: bad length short/long/zero, bad flags, bad value, duplicate, missing mandatory; attribute block and "
               "message framing; NLRI syntax) x every index of the faulty attribute x {eBGP, iBGP, confederation} x treat-as-withdraw on/off, plus pairs of "
               "faults. Layer 2 repeats every catalogue entry end to end (whole BgpServer in virtual time, injecting speaker + listening third speaker; "
               "observed: NOTIFICATION octets, session state, ListPath ADJ_IN / GLOBAL, the third speaker's accumulated view). Layer 3 repeats every (catalogue entry, peer type) on PIPELINED sessions: the speaker writes OPEN + KEEPALIVE + [valid routes] + the faulty UPDATE + one more "
               "valid UPDATE back to back without waiting for gobgp (hold time 0 or 9 s), and in 3 of 5 cases the Established handler is held for 1-5 virtual ms at "
               "its verifYield(\"established\") point so that the receive goroutine runs ahead of it; same oracle, plus: the trailing valid UPDATE must have been "
               "processed whenever the session survives (an unanswered message with a dead receive side is keyed c06:pipelined:unanswered). Layer 4 runs 2-3 SESSIONS OF ONE NEIGHBOUR whose decoding-relevant capabilities change between sessions (four-octet AS on/off, ADD-PATH per family on/off, "
               "extended message on/off, ipv6-unicast announced or not; every single flip in both directions x peer type x treat-as-withdraw, then PRNG plans): each session "
               "carries an UPDATE that is well-formed only under THIS session's options (2- or 4-octet AS_PATH incl. an AS number > 65535, path identifiers, > 4096 octets) "
               "- it must be installed with no reaction (key c06:resession:...:well-formed-penalised) - and one catalogue fault judged under this session's options. "
               "Oracle: an allowed-set table "
               "written from RFC 7606 s3-s7, RFC 4271 s6.3, RFC 4760 s7, RFC 5065 s5, RFC 6793 s6, RFC 8092, plus metamorphic relations (monotonicity under "
               "a second fault, position independence, no penalty for base UPDATEs in every attribute rotation) and end-effect checks (after treat-as-withdraw "
               "every named prefix is gone; no installed route carries the injected attribute or lacks ORIGIN / AS_PATH / next hop).",
    level_note="Fault enumeration is the right level: the property quantifies over a finite catalogue x positions x pairs x configurations, which is enumerated "
               "rather than sampled at layer 1. Trusts the harness' reading of the RFCs (the table accepts every outcome a MAY/SHOULD or two overlapping RFC 7606 "
               "rules permit). Layers 1-3 negotiate four-octet AS numbers, ipv4-unicast + ipv6-unicast, no extended messages; 2-octet-AS sessions (no AS_TRANS / AS4_PATH "
               "reconstruction), extended messages and sessions without ipv6-unicast appear at layer 4 only, the AS-number-carrying faults left out on 2-octet sessions. "
               "treat-as-withdraw 'off' is set white-box in the peer configuration before the session establishes (the API cannot express it); the TOML "
               "configuration path is not exercised.",
    technique="runtime monitor of the real receive loop (layer 1) and of a whole server in virtual time (layer 2) over an enumerated fault catalogue; reference "
              "allowed-set table + metamorphic relations + end-effect checks",
    rule="layer-1 case = (base, fault) over every attribute index x 6 sessions, or a pair of faults at PRNG indices x 6 sessions together with its two single-fault "
         "messages; layer-2 case = one session (prelude of valid routes, one faulty UPDATE, observation at quiescence). Non-trivial iff an independent framing "
         "reader finds every injected fault in the octets sent; distinct by (layer, fault ids, base, positions, peer type, treat-as-withdraw)",
    exhaustive_note="Enumerated completely (both tiers): at layer 1 every single fault of the catalogue x every base UPDATE x every attribute index x {eBGP, iBGP, "
                    "confederation} x treat-as-withdraw {on, off} (ADD-PATH on/off follows the base), and every base x every rotation of its attributes x the 6 "
                    "sessions; at layer 2 every (catalogue entry, peer type, treat-as-withdraw) once and every base once per peer type. Thorough additionally "
                    "enumerates every unordered pair of catalogue entries x every base x 6 sessions at layer 1 (attribute indices PRNG-drawn). At layer 3 every (catalogue entry, peer type) once with treat-as-withdraw alternating and every base once (delivery options prelude / hold time / hold-up PRNG-drawn). At layer 4 every single-capability flip (6 capabilities x 2 directions) x peer type x treat-as-withdraw once; bases, faults and multi-flip plans PRNG-drawn. Sampled: fault "
                    "pairs at layer 1 in the quick tier (5000 PRNG (base, pair) draws x 6 sessions), base / index choice and all pairs at layer 2.",
    assumptions=["reactions are ordered none < attribute discard < treat-as-withdraw < session reset; AFI/SAFI disable (RFC 4760 s7) is admitted wherever a reset is",
                 "RFC 7606 s3.c names the Optional and Transitive bits only: a wrong Partial bit may be ignored, treated as withdraw or reset",
                 "where RFC 7606 s3.c and s3.f overlap (flag errors of ATOMIC_AGGREGATE / AGGREGATOR) discard and treat-as-withdraw are both admitted",
                 "LOCAL_PREF / ORIGINATOR_ID / CLUSTER_LIST from a confederation-external member: both readings of 'external neighbor' admitted",
                 "RFC 4271 s6.3 leftmost-AS check is a MAY: accepting the route is admitted; a loopback NEXT_HOP may be accepted",
                 "an attribute that overruns the attribute block hides MP_REACH/MP_UNREACH attributes behind it (RFC 7606 s5.1): their prefixes are then not required to be withdrawn",
                 "with revised handling off, RFC 6793's discard of malformed AS4_PATH / AS4_AGGREGATOR and a reset are both admitted",
                 "a withdraw-only message cannot tell none / discard / treat-as-withdraw apart end to end: any of them is accepted there"],
    must_count=["l1_single_evaluations", "l1_pair_evaluations", "l1_base_evaluations", "l1_position_groups", "l2_sessions", "l2_base_sessions", "l2_pair_sessions",
                "l2_third_peer_checks", "l4_sessions", "l4_wellformed_updates", "l4_faulty_updates", "l4_messages_over_4096", "l4_change_as4", "l4_change_extmsg", "l4_change_ipv6",
                "l4_change_addpath-v4", "l4_change_addpath-v6", "l3_sessions", "l3_base_sessions", "l3_react_reset", "l3_react_taw", "l3_react_discard", "l3_prelude_true", "l3_prelude_false",
                "l3_hold_0", "l3_hold_9", "l3_established_held_up_true", "l3_established_held_up_false", "l1_peer_ebgp", "l1_peer_ibgp", "l1_peer_confed", "l1_taw_on", "l1_taw_off", "l2_peer_ebgp", "l2_peer_ibgp",
                "l2_peer_confed", "l2_taw_on", "l2_taw_off", "l1_addpath_sessions", "l2_addpath_sessions", "l1_react_reset", "l1_react_taw", "l1_react_discard",
                "l2_react_reset", "l2_react_taw", "l2_react_discard", "catalogue_entries"],
    min_nontrivial=1000,
    units=[dict(name="server", harness="t_server", files=["sim_", "c06_"], run="TestVerifC06",
                shards=dict(quick=16, thorough=16), timeout_s=dict(quick=1200, thorough=10800))],
)
