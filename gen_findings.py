#!/usr/bin/env python3
"""Regenerates /verif/FINDINGS.md (human-readable list of fixed and known findings) from known_findings.json."""
import json, collections, subprocess
k = json.load(open('/verif/known_findings.json'))['findings']
by = collections.defaultdict(list)
for e in k:
    by[e['property']].append(e)
subj = {}
for l in subprocess.run(['git','-C','/repo','log','--format=%h\t%s'],capture_output=True,text=True).stdout.splitlines():
    h, s = l.split('\t', 1); subj[h] = s
out = ["# Findings on the pinned gobgp tree (generated from known_findings.json by gen_findings.py)\n",
       "`fixed` = repaired by one minimal `fix:` commit in /repo (the check passes on the repaired tree and fires again if the defect returns); "
       "`known` = genuine defect left in place, the check prints `KNOWN-FINDING` for exactly that key and exits 0.\n"]
nf = sum(1 for e in k if e['status']=='fixed'); nk = sum(1 for e in k if e['status']=='known')
commits = sorted({e['commit'] for e in k if e.get('commit')})
out.append("Totals: %d fix commits (%d fixed keys), %d known keys.\n" % (len(commits), nf, nk))
for p in sorted(by):
    out.append("\n## %s\n" % p)
    seen = set()
    for e in by[p]:
        if e['status'] != 'fixed': continue
        c = e.get('commit')
        if c in seen: continue
        seen.add(c)
        keys = [x.get('key') or (x.get('key_prefix','')+'*') for x in by[p] if x.get('commit')==c]
        out.append("* **fixed %s** — %s  \n  keys: %s" % (c, subj.get(c, ''), ', '.join('`%s`'%x for x in keys[:6]) + (' …' if len(keys)>6 else '')))
    for e in by[p]:
        if e['status'] == 'known':
            out.append("* **known** `%s` — %s" % (e.get('key') or e.get('key_prefix')+'*', e['what'][:400]))
open('/verif/FINDINGS.md','w').write('\n'.join(out)+'\n')
print("FINDINGS.md:", len(commits), "fix commits,", nk, "known keys")
