#!/usr/bin/env python3
"""tools_show.py <replay.json> [n] — print a violation witness compactly"""
import json,sys
w=json.load(open(sys.argv[1])); n=int(sys.argv[2]) if len(sys.argv)>2 else 40
print(w['key']); print(w['what'][:700])
ww=w.get('witness') or {}
for k,v in ww.items():
    if k=='history':
        print('history (last %d of %d):'%(n,len(v)))
        for l in v[-n:]: print('   ',l)
    elif isinstance(v,list):
        print(k+':'); [print('   ',str(x)[:300]) for x in v[:30]]
    else: print(k,':',str(v)[:500])
