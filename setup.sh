#!/bin/sh
# Pre-builds every registered check binary (normal and race) so quick checks are dominated by execution.
# Everything is built offline from /repo's working tree; failures here are not fatal (each check rebuilds anyway).
cd "$(dirname "$0")" || exit 1
mkdir -p build evidence replays
python3 - <<'PY'
import subprocess, sys
sys.path.insert(0, ".")
from registry import PROPS
from concurrent.futures import ThreadPoolExecutor
def b(p):
    r = subprocess.run(["./check", p, "--tier", "thorough", "--build-only"], capture_output=True, text=True)
    return p, r.returncode, r.stdout[-300:]
with ThreadPoolExecutor(max_workers=3) as ex:
    for p, rc, out in ex.map(b, sorted(PROPS)):
        print(p, "ok" if rc == 0 else "BUILD FAILED", out.strip().splitlines()[-1] if out.strip() else "")
PY
exit 0
