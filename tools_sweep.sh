#!/bin/sh
# tools_sweep.sh <tier> <prop>... — run checks one after another, one summary line each (development aid)
tier=$1; shift
cd /verif
for p in "$@"; do
  out=$(./check $p --tier $tier 2>&1)
  rc=$?
  echo "== $p rc=$rc $(echo "$out" | grep "^$p tier" | tail -1)"
  echo "$out" | grep "^VIOLATION\|^  key=\|^INCONCLUSIVE" | cut -c1-260 | head -12
done
