#!/usr/bin/env python3
"""tools_fixed_entries.py <PROP> <commit_messages.md> — append 'fixed' entries to known_findings.json for every patch
section of the md file whose commit exists in /repo (matched by subject) using the keys on its Removes: line."""
import json, re, subprocess, sys
prop, md = sys.argv[1], open(sys.argv[2]).read()
log = subprocess.run(['git','-C','/repo','log','--format=%h\t%s'],capture_output=True,text=True).stdout.splitlines()
subj2h = {l.split('\t',1)[1]: l.split('\t',1)[0] for l in log}
kf = json.load(open('/verif/known_findings.json'))
have = {(e.get('property'), e.get('key') or e.get('key_prefix'), e.get('status')) for e in kf['findings']}
secs = re.split(r'(?m)^## +', md)[1:]
n = 0
for sec in secs:
    head = sec.split('\n',1)[0]
    if not re.search(r'\.diff', head): continue
    m = re.search(r'```\n(.*?)```', sec, re.S)
    if m: msg = m.group(1).strip()
    else:
        lines=[l[4:] for l in sec.split('\n')[1:] if l.startswith('    ')]
        msg='\n'.join(lines).strip()
    subj = msg.split('\n',1)[0].strip()
    h = subj2h.get(subj)
    if not h:
        print("not committed:", subj); continue
    body = ' '.join(msg.split('\n')[2:])[:400]
    rm = re.search(r'(?im)^removes[^:]*:(.*?)(?:\n\n|\n##|\Z)', sec, re.S)
    keys = re.findall(r'`([^`]+)`', rm.group(1)) if rm else []
    if rm and not keys:  # keys written without backticks, comma separated; drop parenthesised remarks
        txt = re.sub(r'\([^)]*\)', '', rm.group(1).split('\n')[0])
        keys = [k.strip() for k in txt.split(',') if k.strip()]
    for k in keys:
        if not re.match(r'^(panic:)?(e2e:)?c\d\d[a-z]*:|^race:|^crash:', k): continue
        e = {"property": prop, "status": "fixed", "commit": h}
        # expand {a,b} alternations are left as written: treat braces as prefix cut
        if '{' in k:
            k = k.split('{')[0]
            e["key_prefix"] = k
        elif k.endswith(':') or k.endswith('*'):
            e["key_prefix"] = k.rstrip('*')
        else:
            e["key"] = k
        ident = (prop, e.get('key') or e.get('key_prefix'), 'fixed')
        if ident in have: continue
        have.add(ident)
        e["what"] = "fixed: property=%s %s %s — %s" % (prop, h, subj[5:].strip(), body)
        kf['findings'].append(e); n += 1
json.dump(kf, open('/verif/known_findings.json','w'), indent=1)
print(prop, "added", n, "fixed entries")
