#!/usr/bin/env python3
"""tools_apply_patches.py <commit_messages.md> [patchfile ...] — apply each patch to /repo as its own fix: commit,
taking the message from the ``` block that follows '## <patchfile>' in the md file."""
import re, subprocess, sys, os
md = open(sys.argv[1]).read()
want = [os.path.basename(p) for p in sys.argv[2:]]
secs = re.split(r'(?m)^## +', md)[1:]
for sec in secs:
    mm = re.search(r'([A-Za-z0-9_.-]+\.diff)', sec.split('\n', 1)[0])
    if not mm:
        continue
    name = mm.group(1)
    if want and name not in want:
        continue
    m = re.search(r'```\n(.*?)```', sec, re.S)
    if m:
        msg = m.group(1).strip() + "\n"
    else:
        # indented-block layout: lines starting with 4 spaces (blank lines allowed) right after the header
        body = sec.split('\n', 1)[1]
        lines = []
        started = False
        for l in body.split('\n'):
            if l.startswith('    '):
                lines.append(l[4:]); started = True
            elif l.strip() == '' and started:
                lines.append('')
            elif started:
                break
        msg = '\n'.join(lines).strip() + "\n"
        if not msg.strip():
            print("no message for", name); continue
    assert msg.startswith("fix:"), name
    path = os.path.join(os.path.dirname(os.path.abspath(sys.argv[1])), name)
    r = subprocess.run(["git", "-C", "/repo", "apply", "--index", path], capture_output=True, text=True)
    if r.returncode != 0:
        print("FAILED to apply", name, r.stderr[:500]); continue
    subprocess.run(["git", "-C", "/repo", "commit", "-q", "-m", msg], check=True)
    h = subprocess.run(["git", "-C", "/repo", "log", "-1", "--format=%h %s"], capture_output=True, text=True).stdout.strip()
    print("committed", name, "->", h)
