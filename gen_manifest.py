#!/usr/bin/env python3
"""Regenerates MANIFEST.json from registry.py (single source of truth) and validates it."""
import json, os, subprocess, sys
V = os.path.dirname(os.path.abspath(__file__))
sys.path.insert(0, V)
from registry import PROPS, NOT_CLAIMED

ids = [json.loads(l)["id"] for l in open(os.path.join(V, "properties.jsonl"))]
hook_commits = subprocess.run(["git", "-C", "/repo", "log", "--format=%H %s"], capture_output=True, text=True).stdout.splitlines()
hook_commits = [l.split()[0] for l in hook_commits if l.split(" ", 1)[1].startswith("verif:")]
checks, na = [], []
for i in ids:
    if i in PROPS:
        p = PROPS[i]
        checks.append(dict(
            property_id=i,
            quick_cmd="./check %s --tier quick" % i,
            thorough_cmd="./check %s --tier thorough" % i,
            evidence_file="/verif/evidence/%s.json" % i,
            replay_cmd_template="./check %s --replay {path}" % i,
            engine=p.get("engine", "harness"),
            level_claimed=dict(category=p["level"], text=p["level_text"], design_ref="DESIGN.md §4 " + i),
            level_note=p["level_note"],
            technique=p["technique"]))
    else:
        na.append(dict(property_id=i, reason=NOT_CLAIMED.get(i, "no check registered yet (machinery for this property is still being built); see DESIGN.md")))
m = dict(
    version=1,
    setup_cmd="./setup.sh",
    hooks=dict(guard="verif (Go build tag)",
               enable="go test -c -tags verif -overlay <harness overlay> -modfile <copy of go.mod + porcupine> ./<pkg>, run from /repo's working tree by ./check",
               baseline_off_cmd="cd /repo && GOFLAGS=-mod=mod GOPROXY=off go test -vet=off -count=1 -timeout 25m ./...",
               source_commits=hook_commits, add_only=True),
    engines=[
        dict(name="driver", path="/verif/check", serves_properties=sorted(PROPS), kind_free_text="builds overlay-injected test binaries from /repo's working tree, runs them as sharded processes with watchdogs, aggregates event logs into verdict + evidence"),
        dict(name="vlib", path="/verif/harness/vlib", serves_properties=sorted(PROPS), kind_free_text="case scheduling, per-case PRNG, event recorder, panic guard"),
    ],
    checks=checks,
    not_applicable=na,
    notes="Runtime monitoring: every check executes the real gobgp code (built with -tags verif from /repo's current tree) under generated/hostile workloads and decides by an oracle over what was observed. exit 0 held-on-observed / 1 VIOLATION / 2 INCONCLUSIVE. Known and fixed findings: /verif/known_findings.json.",
)
json.dump(m, open(os.path.join(V, "MANIFEST.json"), "w"), indent=1)
try:
    import jsonschema
    jsonschema.validate(m, json.load(open("/root/.vp/MANIFEST.schema.json")))
    print("MANIFEST.json valid: %d checks, %d not claimed" % (len(checks), len(na)))
except ImportError:
    print("MANIFEST.json written (jsonschema not importable here)")
