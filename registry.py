# Registry of checks. Each property lives in its OWN file /verif/registry.d/Cnn.py which does
#   PROPS["Cnn"] = dict(level=..., level_text=..., level_note=..., technique=..., rule=..., units=[...], ...)
# (PROPS, HARNESS_PKG and SHARED_PKGS are predefined when the file is executed). One file per property means
# builders never rewrite each other's entries. Do not add entries to this file.
import glob, os

# harness dir -> package directory inside /repo that the *_test.go files are overlaid into.
HARNESS_PKG = {
    "t_table": "internal/pkg/table",
    "t_bgp": "pkg/packet/bgp",
    "t_server": "pkg/server",
    "t_apiutil": "pkg/apiutil",
    "t_mrt": "pkg/packet/mrt",
    "t_bmp": "pkg/packet/bmp",
    "t_rtr": "pkg/packet/rtr",
    "t_zebra": "pkg/zebra",
    "t_bfd": "pkg/packet/bfd",
}
# plain packages injected at /repo/internal/verif/<name> (import github.com/osrg/gobgp/v4/internal/verif/<name>)
SHARED_PKGS = ["vlib", "wire", "gen", "refmodel"]

PROPS = {}
# properties not (yet) claimed, with the reason that goes into MANIFEST.not_applicable
NOT_CLAIMED = {}

_here = os.path.dirname(os.path.abspath(__file__))
for _f in sorted(glob.glob(os.path.join(_here, "registry.d", "C*.py"))):
    with open(_f) as _fh:
        exec(compile(_fh.read(), _f, "exec"), {"PROPS": PROPS, "HARNESS_PKG": HARNESS_PKG, "SHARED_PKGS": SHARED_PKGS, "NOT_CLAIMED": NOT_CLAIMED})

PROPS["C15"] = dict(
    level="exploration",
    level_text="Metamorphic two-run differential in virtual time (testing/synctest): run A = fresh daemon with policy program P1, 2-4 scripted speakers "
               "(eBGP / one iBGP / route-server clients / mixed) announce 20-200 IPv4+IPv6 routes, the policy is changed to P2 through the management API, "
               "the corresponding soft reset (ResetPeer soft in|out|both, one peer or all) or ROUTE-REFRESH from the speaker(s) follows, then the same reset "
               "once more; run B = fresh daemon with P2 in force before the first route. At exact quiescence Loc-RIB (global and per route-server client, "
               "path sets, attributes, best flag), ADJ_IN raw and with filtered flags, ADJ_OUT and every speaker's accumulated wire view must be identical; "
               "in 30% of the pairs the speakers keep announcing/replacing/withdrawing from their own goroutines (with scheduler yields at gobgp's lock-free "
               "points) while the change and/or the reset run and B is fed with the final route set. Exploration: (P1, P2, routes, reset, schedule) are sampled.",
    level_note="Run B (gobgp itself under P2 from the start) is the reference: that a fresh evaluation applies the policy correctly is C10, that the "
               "Loc-RIB picks the right best path is C03. Route timestamps are made irrelevant: all routes of a run arrive at one virtual instant and the "
               "generated routes are totally ordered by the decision process (unique first AS per source, import prepend only of the left-most AS unless "
               "always-compare-med). For a reset aimed at one peer the change is confined to that peer (per-client assignment of a route-server client, "
               "or statements guarded by a neighbour set holding only that peer). A peer whose wire view already differs from gobgp's fresh ADJ_OUT "
               "before the change (run A) or in run B (that is property C01, counted under precondition_*) is left out of the wire comparison.",
    technique="runtime metamorphic monitor: state after (policy change + soft reset / route refresh) vs fresh daemon under the new policy, plus idempotence "
              "monitor on the repeated reset (views unchanged, every UPDATE a plain re-advertisement), at exact quiescence in virtual time",
    rule="case = one (topology, routes, P1, change, reset) pair: P1 = 6-7 defined sets per direction (prefix sets with mask ranges, neighbour, AS-path "
         "single-AS forms + regexps, community), 4-7 policies x 1-3 statements per direction (conditions: the sets with any/all/invert, as-path-length, "
         "community-count; actions accept/reject/continue + community add/remove/replace, MED set/+/-, local-pref, AS-path prepend, next-hop), "
         "assignments global and per route-server client with either default; change kind in {assign-set, assign-add, assign-del, default-flip, "
         "defset-add, defset-del, defset-replace, policy-add-stmt, policy-del-stmt} x {import, export, both}; non-trivial iff gobgp's own states under "
         "P1 and under P2 on the same inputs differ on >=1 route; distinct by (changed-verdict pattern set, reset kind, change kind(s), racing)",
    assumptions=["'the current policy' is what the management API reports after the change (AddDefinedSet with replace = the set now has the new members; "
                 "AddPolicyAssignment appends; AddPolicy on an existing policy appends statements; DeletePolicy/DeleteDefinedSet without 'all' remove the named members)",
                 "a repeated reset may re-send routes, but only as they are already held by the peer (no withdraw of a held route, no changed attributes, no new route)",
                 "DeletePolicyAssignment(all), deleting sets/policies/statements entirely, ADD-PATH sessions, VRF/VPN families and locally originated routes are not generated"],
    must_count=["nontrivial_pairs", "pairs_equal", "repeat_checks", "racing_cases", "routes_compared",
                "reset_soft-in_one", "reset_soft-in_all", "reset_soft-out_one", "reset_soft-out_all", "reset_soft-both_all", "reset_route-refresh_one", "reset_route-refresh_all",
                "change_assign-set_import", "change_assign-add_import", "change_assign-del_import", "change_default-flip_import", "change_defset-add_import",
                "change_defset-del_import", "change_policy-add-stmt_import", "change_policy-del-stmt_import",
                "change_assign-set_export", "change_assign-add_export", "change_assign-del_export", "change_default-flip_export", "change_defset-add_export",
                "change_defset-del_export", "change_policy-add-stmt_export", "change_policy-del-stmt_export",
                "pattern_in:accept->reject", "pattern_in:reject->accept", "pattern_in:attrs-changed", "pattern_out:accept->reject", "pattern_out:reject->accept",
                "pattern_out:attrs-changed", "topology_plain", "topology_route_server", "topology_mixed"],
    min_nontrivial=20,
    units=[dict(name="sim", harness="t_server", files=["sim_", "c15_"], run="TestVerifC15",
                shards=dict(quick=16, thorough=16), timeout_s=dict(quick=1200, thorough=10800))],
)


PROPS["C06"] = dict(
    level="fault_enumeration",
    level_text="Fault enumeration at two layers. Layer 1 runs gobgp's real receive loop (fsmHandler.recvMessageloop: recvMessageWithError -> ParseBGPBody -> "
               "ValidateUpdateMsg -> handlingError -> NOTIFICATION or callback, then table.ProcessMessage as peer.handleUpdate calls it) on UPDATEs laid out "
               "octet by octet by the harness: 40 well-formed base UPDATEs (v4, v6 MP_REACH, mixed, withdraw-only, optional attributes, ADD-PATH) x a "
               "catalogue of 129 faults (per attribute: bad length short/long/zero, bad flags, bad value, duplicate, missing mandatory; attribute block and "
               "message framing; NLRI syntax) x every index of the faulty attribute x {eBGP, iBGP, confederation} x treat-as-withdraw on/off, plus pairs of "
               "faults. Layer 2 repeats every catalogue entry end to end (whole BgpServer in virtual time, injecting speaker + listening third speaker; "
               "observed: NOTIFICATION octets, session state, ListPath ADJ_IN / GLOBAL, the third speaker's accumulated view). Oracle: an allowed-set table "
               "written from RFC 7606 s3-s7, RFC 4271 s6.3, RFC 4760 s7, RFC 5065 s5, RFC 6793 s6, RFC 8092, plus metamorphic relations (monotonicity under "
               "a second fault, position independence, no penalty for base UPDATEs in every attribute rotation) and end-effect checks (after treat-as-withdraw "
               "every named prefix is gone; no installed route carries the injected attribute or lacks ORIGIN / AS_PATH / next hop).",
    level_note="Fault enumeration is the right level: the property quantifies over a finite catalogue x positions x pairs x configurations, which is enumerated "
               "rather than sampled at layer 1. Trusts the harness' reading of the RFCs (the table accepts every outcome a MAY/SHOULD or two overlapping RFC 7606 "
               "rules permit). Sessions negotiate four-octet AS numbers (no AS_TRANS / 2-octet peers), ipv4-unicast + ipv6-unicast only, no extended messages. "
               "treat-as-withdraw 'off' is set white-box in the peer configuration before the session establishes (the API cannot express it); the TOML "
               "configuration path is not exercised.",
    technique="runtime monitor of the real receive loop (layer 1) and of a whole server in virtual time (layer 2) over an enumerated fault catalogue; reference "
              "allowed-set table + metamorphic relations + end-effect checks",
    rule="layer-1 case = (base, fault) over every attribute index x 6 sessions, or a pair of faults at PRNG indices x 6 sessions together with its two single-fault "
         "messages; layer-2 case = one session (prelude of valid routes, one faulty UPDATE, observation at quiescence). Non-trivial iff an independent framing "
         "reader finds every injected fault in the octets sent; distinct by (layer, fault ids, base, positions, peer type, treat-as-withdraw)",
    exhaustive_note="Enumerated completely (both tiers): at layer 1 every single fault of the catalogue x every base UPDATE x every attribute index x {eBGP, iBGP, "
                    "confederation} x treat-as-withdraw {on, off} (ADD-PATH on/off follows the base), and every base x every rotation of its attributes x the 6 "
                    "sessions; at layer 2 every (catalogue entry, peer type, treat-as-withdraw) once and every base once per peer type. Thorough additionally "
                    "enumerates every unordered pair of catalogue entries x every base x 6 sessions at layer 1 (attribute indices PRNG-drawn). Sampled: fault "
                    "pairs at layer 1 in the quick tier (5000 PRNG (base, pair) draws x 6 sessions), base / index choice and all pairs at layer 2.",
    assumptions=["reactions are ordered none < attribute discard < treat-as-withdraw < session reset; AFI/SAFI disable (RFC 4760 s7) is admitted wherever a reset is",
                 "RFC 7606 s3.c names the Optional and Transitive bits only: a wrong Partial bit may be ignored, treated as withdraw or reset",
                 "where RFC 7606 s3.c and s3.f overlap (flag errors of ATOMIC_AGGREGATE / AGGREGATOR) discard and treat-as-withdraw are both admitted",
                 "LOCAL_PREF / ORIGINATOR_ID / CLUSTER_LIST from a confederation-external member: both readings of 'external neighbor' admitted",
                 "RFC 4271 s6.3 leftmost-AS check is a MAY: accepting the route is admitted; a loopback NEXT_HOP may be accepted",
                 "an attribute that overruns the attribute block hides MP_REACH/MP_UNREACH attributes behind it (RFC 7606 s5.1): their prefixes are then not required to be withdrawn",
                 "with revised handling off, RFC 6793's discard of malformed AS4_PATH / AS4_AGGREGATOR and a reset are both admitted",
                 "a withdraw-only message cannot tell none / discard / treat-as-withdraw apart end to end: any of them is accepted there"],
    must_count=["l1_single_evaluations", "l1_pair_evaluations", "l1_base_evaluations", "l1_position_groups", "l2_sessions", "l2_base_sessions", "l2_pair_sessions",
                "l2_third_peer_checks", "l1_peer_ebgp", "l1_peer_ibgp", "l1_peer_confed", "l1_taw_on", "l1_taw_off", "l2_peer_ebgp", "l2_peer_ibgp",
                "l2_peer_confed", "l2_taw_on", "l2_taw_off", "l1_addpath_sessions", "l2_addpath_sessions", "l1_react_reset", "l1_react_taw", "l1_react_discard",
                "l2_react_reset", "l2_react_taw", "l2_react_discard", "catalogue_entries"],
    min_nontrivial=1000,
    units=[dict(name="server", harness="t_server", files=["sim_", "c06_"], run="TestVerifC06",
                shards=dict(quick=16, thorough=16), timeout_s=dict(quick=1200, thorough=10800))],
)
