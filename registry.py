# Registry of checks: property -> units (harness dir, file prefixes, test name, shards, timeouts).
# harness dir -> package directory inside /repo that the *_test.go files are overlaid into.
HARNESS_PKG = {
    "t_table": "internal/pkg/table",
    "t_bgp": "pkg/packet/bgp",
    "t_server": "pkg/server",
    "t_apiutil": "pkg/apiutil",
    "t_mrt": "pkg/packet/mrt",
    "t_bmp": "pkg/packet/bmp",
    "t_rtr": "pkg/packet/rtr",
    "t_zebra": "pkg/zebra",
    "t_bfd": "pkg/packet/bfd",
}
# plain packages injected at /repo/internal/verif/<name> (import github.com/osrg/gobgp/v4/internal/verif/<name>)
SHARED_PKGS = ["vlib", "wire", "gen", "refmodel"]

PROPS = {
    "C13": dict(
        level="exploration",
        level_text="Differential runtime monitor: the compiled matchers (per matcher and through Condition.Evaluate, all three options, after random "
                   "edit sequences) are executed on thousands of pattern lists x communities and compared with Go's regexp on the canonical text. "
                   "Exploration is the right level: the pattern space is infinite, the grammar is aimed at the compiler's recognisers and their near misses.",
        level_note="Trusts Go's regexp as the meaning of a pattern and String() as canonical text; patterns outside the generator's grammar are not covered.",
        technique="runtime differential monitor (compiled matcher vs regexp.MatchString) over generated pattern lists, communities and edit sequences",
        rule="case = one pattern list (1-4 patterns drawn from the grammar of compiler-recognised shapes and near misses, plus 0-2 random "
             "Append/Remove/Replace edits) probed with ~70 communities per matcher and 12 routes x any/all/invert; non-trivial iff at least one "
             "pattern was promoted to a non-regexp matcher mode; distinct by (matcher-mode sequence, pattern list with numbers abstracted)",
        assumptions=["Go's regexp package is the reference semantics of a configured pattern",
                     "canonical text of a community is AS:local in decimal; of an extended community its String()",
                     "only transitive extended communities take part in matching (RFC 7153), as gobgp documents"],
        must_count=["matcher_evals", "condition_evals", "edits"],
        units=[dict(name="table", harness="t_table", files=["common_", "c13_"], run="TestVerifC13",
                    shards=dict(quick=16, thorough=16), timeout_s=dict(quick=600, thorough=3600))],
    ),
}

PROPS["C01"] = dict(
    level="exploration",
    level_text="The whole daemon runs in virtual time (testing/synctest) against 3-5 scripted speakers of mixed kinds; PRNG histories of 40-160 events "
               "(announce, replace, withdraw, duplicate withdraw, session flap, re-establish, API add/delete, slow reader on/off, clock ticks) are "
               "executed and, at exact quiescence, everything each peer has been sent (decoded from the bytes written to its connection and applied in "
               "order) is compared with a fresh ADJ_OUT evaluation. Exploration: histories x interleavings are sampled, not enumerated.",
    level_note="Trusts gobgp's own UPDATE parser on the receiving side and ListPath(ADJ_OUT) (fresh filterpath/export evaluation over the current table) "
               "as the reference of what should be advertised; that the Loc-RIB itself is right is C02/C03.",
    technique="runtime monitor: per-peer accumulated wire view vs fresh ADJ_OUT evaluation at exact quiescence (synctest.Wait) over PRNG event histories in virtual time",
    rule="case = one history (3-5 peers of kinds eBGP / two sessions to one AS / iBGP / RR client / RS client, 40-160 events, compared every 5-20 events); "
         "a comparison is non-trivial iff >=1 UPDATE reached that peer since the previous comparison; distinct by (peer kind, add-path, event-kind multiset hash)",
    assumptions=["net.Pipe transports (no kernel buffering): back-pressure and coalescing are more frequent than on TCP, never less",
                 "hold time 0 on all sessions (no keepalives)"],
    must_count=["quiescent_comparisons", "comparisons_after_updates", "addpath_comparisons", "ev_announce", "ev_withdraw", "ev_flap", "ev_reestablish", "ev_burst"],
    min_nontrivial=20,
    units=[dict(name="sim", harness="t_server", files=["sim_", "c01_"], run="TestVerifC01",
                shards=dict(quick=16, thorough=16), timeout_s=dict(quick=1800, thorough=10800))],
)

# C19 (function-level half): coverage counters that must be non-zero, one per message type / subtype / PDU /
# command body / flavour the property quantifies over (a type with zero hits makes the run inconclusive).
_C19_MRT = ["TABLE_DUMPv2/PEER_INDEX_TABLE", "TABLE_DUMPv2/GEO_PEER_TABLE", "TABLE_DUMPv2/RIB_GENERIC", "TABLE_DUMPv2/RIB_GENERIC_ADDPATH"] + \
    ["TABLE_DUMPv2/RIB_%s_%s%s" % (a, c, x) for a in ("IPV4", "IPV6") for c in ("UNICAST", "MULTICAST") for x in ("", "_ADDPATH")] + \
    ["BGP4MP/STATE_CHANGE", "BGP4MP/STATE_CHANGE_AS4"] + \
    ["BGP4MP/MESSAGE%s%s%s" % (a, l, x) for a in ("", "_AS4") for l in ("", "_LOCAL") for x in ("", "_ADDPATH")]
_C19_FLAVOURS = ["v2/default", "v3/default", "v4/default", "v5/default", "v5/frr4", "v5/frr5", "v5/cumulus", "v5/cumulus-literal", "v6/default"] + \
    ["v6/frr%s" % v for v in ("6", "7", "7.1", "7.2", "7.3", "7.4", "7.5", "8", "8.1", "8.2")]
_C19_ZBODIES = ["unknownBody", "HelloBody", "redistributeBody", "interfaceUpdateBody", "interfaceAddressUpdateBody", "routerIDUpdateBody", "IPRouteBody",
                "lookupBody", "RegisteredNexthop", "NexthopRegisterBody", "NexthopUpdateBody", "labelManagerConnectBody", "GetLabelChunkBody",
                "releaseLabelChunkBody", "vrfLabelBody"]
_C19_MUST = (
    ["rtr_hostile_inputs", "rtr_reserialized", "rtr_calls_ParseRTR"] +
    ["rtr_rt_" + n for n in ("serial_notify", "serial_query", "reset_query", "cache_response", "ipv4_prefix", "ipv6_prefix", "end_of_data", "cache_reset", "error_report")] +
    ["bfd_hostile_inputs", "bfd_rt", "bfd_result_ok", "bfd_accepted_remarshaled"] +
    ["bmp_hostile_inputs", "bmp_trailing_differentials", "bmp_split_clean_streams", "bmp_split_scanner_runs", "bmp_accepted_reserialized", "bmp_rt_timestamp_checked"] +
    ["bmp_rt_" + n for n in ("route_monitoring", "statistics_report", "peer_up", "initiation", "termination", "route_mirroring")] +
    ["bmp_rt_peer_down_r%d" % i for i in range(1, 7)] +
    ["bmp_direct_%s.ParseBody" % n for n in ("BMPRouteMonitoring", "BMPStatisticsReport", "BMPPeerDownNotification", "BMPPeerUpNotification", "BMPInitiation", "BMPTermination", "BMPRouteMirroring")] +
    ["mrt_hostile_inputs", "mrt_split_clean_streams", "mrt_split_scanner_runs", "mrt_accepted_reserialized", "mrt_rt_BGP4MP_ET", "mrt_rt_bgp4mp_payload_form",
     "mrt_rt_BGP4MP/MESSAGE*_ADDPATH(path-ids)", "mrt_direct_parseRibEntry"] +
    ["mrt_rt_" + n for n in _C19_MRT if "ADDPATH" not in n or n.startswith("TABLE")] + ["mrt_parsebody_" + n for n in _C19_MRT] +
    ["zapi_hostile_inputs", "zapi_rt_messages", "zapi_receive_differentials", "zapi_calls_parseMessage", "zapi_calls_ReceiveSingleMsg", "zapi_calls_Header.decodeFromBytes"] +
    ["zapi_rt_header_v%d" % v for v in range(2, 7)] +
    ["zapi_rt_" + n for n in ("HelloBody", "redistributeBody", "vrfLabelBody", "unknownBody", "NexthopRegisterBody", "NexthopUpdateBody", "IPRouteBody")] +
    ["zapi_calls_%s.decodeFromBytes" % n for n in _C19_ZBODIES] +
    ["zapi_hostile_flavour_" + f for f in _C19_FLAVOURS] + ["zapi_rt_flavour_" + f for f in _C19_FLAVOURS]
)

PROPS["C19"] = dict(
    level="exploration",
    level_text="Per-protocol runtime monitors over generated hostile inputs (pure random bytes and structure-aware mutations of valid serialised "
               "messages: bit flips, length fields 0/1/max/+-1, truncation, TLV duplication, splicing) for every decoder entry point, ZAPI version "
               "2..6 and software flavour, plus generator-driven round trips of every constructible message against independent reference encodings. "
               "Exploration is the right level: the input space is all byte strings; the generators are aimed at length guards and framing.",
    level_note="Function-level half of C19 (package Parse*/Serialize entry points). 'Does not loop' is decided by the shard watchdog (bounded time) and, "
               "for the splitters, by a token budget on a real bufio.Scanner; 'does not read past the data' by exact-capacity buffers (a read past len "
               "panics) and by a poison differential over the spare capacity / the bytes after the declared length. The BGP PDUs, NLRI and path "
               "attributes inside MRT/BMP records are cargo taken from the bgp package (its codec is C04/C05). The daemon-emitted MRT/BMP records "
               "half is a separate unit on the server simulator.",
    technique="runtime monitors (panic guard, buffer-unchanged, over-read poison differential, bufio.SplitFunc contract, real bufio.Scanner runs, "
              "stream-consumption accounting on an in-memory net.Conn) + round-trip / independent-reference-encoding oracle over generated messages",
    rule="case = one hostile input fed to the entry points of its protocol (quick: rtr 6e4, bfd 4e4, bmp 1.2e5, mrt 1.2e5, zapi 2.4e5 cases; thorough 20x), "
         "or one constructed message round-tripped; non-trivial iff a decoder was executed on it; distinct by (protocol, entry point, "
         "version/flavour, message type, first error text with numbers stripped or ok)",
    assumptions=["a value is 'constructible' when it is built through the package's constructors / fields with in-range, mutually consistent field values "
                 "(e.g. RTR prefix length <= max length <= address bits, BMP TLV class matching its type code, 2-octet AS numbers in non-AS4 MRT records, "
                 "BMP per-peer timestamps on the microsecond grid)",
                 "request-only or response-only ZAPI layouts (interface*, routerID, lookup, labelManagerConnect, get/releaseLabelChunk, ZAPI v2-4 route "
                 "messages) are not expected to round-trip; they are covered by the hostile-input monitors only",
                 "representation slack accepted as equal: nil vs empty slices, fields documented as derived on serialise (lengths, counts, nexthop type "
                 "from gate/ifindex, nexthop flag bits from label/weight/backup counts, prefix family from the address), BMP timestamps within 0.5 us",
                 "allocation size is not monitored (not in the property text); the watchdog decides 'did not return' by a two-strike timeout"],
    must_count=_C19_MUST,
    units=[
        dict(name="rtr", harness="t_rtr", files=["common_", "c19_"], run="TestVerifC19",
             shards=dict(quick=4, thorough=8), timeout_s=dict(quick=600, thorough=3600)),
        dict(name="bfd", harness="t_bfd", files=["common_", "c19_"], run="TestVerifC19",
             shards=dict(quick=4, thorough=8), timeout_s=dict(quick=600, thorough=3600)),
        dict(name="bmp", harness="t_bmp", files=["common_", "c19_"], run="TestVerifC19",
             shards=dict(quick=8, thorough=16), timeout_s=dict(quick=600, thorough=3600)),
        dict(name="mrt", harness="t_mrt", files=["common_", "c19_"], run="TestVerifC19",
             shards=dict(quick=8, thorough=16), timeout_s=dict(quick=600, thorough=3600)),
        dict(name="zebra", harness="t_zebra", files=["common_", "c19_"], run="TestVerifC19",
             shards=dict(quick=8, thorough=16), timeout_s=dict(quick=600, thorough=5400)),
    ],
)

PROPS["C04"] = dict(
    level="exploration",
    level_text="Generator-driven runtime monitor of the real Serialize/Parse/Len code: algebraic identities (parse∘serialise = id, "
               "serialise∘parse fixpoint, Len = emitted = consumed) plus a differential against an independent RFC 4271/4760/7911 framing "
               "reader. Exploration is the right level: the message space is infinite; the generator enumerates every constructible "
               "capability, attribute and NLRI type with boundary-biased values under every option combination.",
    level_note="Trusts the harness generator to build only structurally valid values (value classes gobgp cannot represent by design, e.g. "
               "several key/value NLRI in one attribute or label stacks that overflow the one-octet NLRI length, are not generated); the "
               "independent reader checks framing, not attribute semantics. MRT serialisation mode is not part of the statement and is not "
               "exercised here.",
    technique="runtime monitor over generated messages: round-trip/fixpoint identities, per-element Len/emit/consume agreement, "
              "independent wire reader differential, and re-serialisation identities on parser-accepted mutants",
    rule="case = one generated message x option set (3 of 4 cases), or one structure-aware mutant of a valid core-family message that the "
         "parser accepts (1 of 4); non-trivial iff it parses and holds >=1 attribute/NLRI/capability; distinct by (type set, option set, "
         "length bucket)",
    assumptions=["the independent reader in harness/wire is a correct reading of RFC 4271 s4, RFC 4760 s3-5, RFC 7911 s3, RFC 8654",
                 "nil vs empty slices, fields named Reserved, the PathAttribute.Length / extended-length flag / TunnelEncapTLV.Length / "
                 "OpaqueNLRI.Length header caches and the IPv4-mapped form of an IPv4 next hop under an IPv6 AFI are representation, not content",
                 "for parser-accepted hostile inputs gobgp may canonicalise once (only the fixpoint of serialise∘parse is claimed); cached "
                 "header lengths of the parsed message are cleared before it is re-serialised"],
    must_count=["kind_open", "kind_update", "kind_notification", "kind_refresh", "kind_keepalive", "wire_checked", "wire_mp_prefix_lists",
                "attr_len_checks", "attr_consume_checks", "nlri_len_checks", "nlri_consume_checks", "cap_len_checks", "accepted_half_accepted_mutants",
                "opt_addpath", "opt_as2", "opt_extmsg", "msgs_over_4096"]
               + ["attr_type_%d" % t for t in (1, 2, 3, 4, 5, 6, 7, 8, 9, 10, 14, 15, 16, 17, 18, 22, 23, 25, 26, 29, 32, 40)]
               + ["cap_code_%d" % c for c in (1, 2, 4, 5, 6, 64, 65, 69, 70, 71, 73, 75, 128)]
               + ["family_" + f for f in ("ipv4-unicast", "ipv6-unicast", "ipv4-multicast", "ipv6-multicast", "ipv4-labelled-unicast",
                                         "ipv6-labelled-unicast", "l3vpn-ipv4-unicast", "l3vpn-ipv6-unicast", "l3vpn-ipv4-multicast",
                                         "l3vpn-ipv6-multicast", "l2vpn-vpls", "l2vpn-evpn", "rtc", "ipv4-encap", "ipv6-encap", "ipv4-flowspec",
                                         "l3vpn-ipv4-flowspec", "ipv6-flowspec", "l3vpn-ipv6-flowspec", "l2vpn-flowspec", "opaque", "ls",
                                         "ipv4-srpolicy", "ipv6-srpolicy", "ipv4-mup", "ipv6-mup")],
    units=[dict(name="bgp", harness="t_bgp", files=["gen_", "c04_"], run="TestVerifC04",
                shards=dict(quick=16, thorough=16), timeout_s=dict(quick=900, thorough=7200))],
)

PROPS["C05"] = dict(
    level="exploration",
    level_text="Hostile-input runtime monitor of every decoder entry point of pkg/packet/bgp: panics (recovered per call and keyed by the "
               "gobgp function at the panic site), writes to the caller's buffer, an over-read differential (octets beyond the declared end "
               "must not influence value or error), render/re-serialise of every value the daemon would go on using, an allocation bound on "
               "a sample, and the driver's watchdog for hangs. Exploration is the right level: 'all byte strings' can only be sampled; the "
               "productive part are structure-aware mutations of valid messages of every type under every option combination.",
    level_note="Go is memory safe, so an out-of-bounds access is a panic, not silent corruption; reading beyond len within cap is covered by the "
               "differential. Non-termination is judged by the driver's watchdog (two-strike rule). The real receive path of pkg/server is not "
               "driven here (only the codec entry points it calls).",
    technique="runtime monitor (recover, buffer compare, poison-suffix differential, render probes, MemStats delta) over random and "
              "structure-aware mutated inputs; second unit under the race detector (checkptr, concurrent readers of one buffer)",
    rule="case = one input (pure random, valid, or 1-2 structure-aware mutations of a generated valid message) x option set, fed to every "
         "applicable entry point (message, header+body, per attribute, per NLRI family, per capability); an evaluation is one entry-point "
         "call; non-trivial iff the decoder got past the first length check (a nested element decoded or a non-header error); distinct by "
         "(entry point, first-error class or result type set)",
    assumptions=["a value is 'used by the daemon' iff it is returned without error, or it is an UPDATE returned with an attribute-discard / "
                 "treat-as-withdraw MessageError (pkg/server/fsm.go recvMessageWithError / handlingError)",
                 "octets in the slice's spare capacity and octets behind the header-declared length are outside the declared message"],
    must_count=["entry_ParseBGPMessage", "entry_ParseBGPMessage+next", "entry_ParseBGPBody", "entry_BGPHeader.DecodeFromBytes", "rendered_ParseBGPMessage",
                "rendered_with_nonfatal_error", "alloc_samples", "class_random", "class_mutated1", "class_valid", "nontrivial_calls"]
               + ["entry_attr%d" % t for t in (1, 2, 3, 4, 5, 6, 7, 8, 9, 10, 14, 15, 16, 17, 18, 22, 23, 25, 26, 29, 32, 40)] + ["entry_attrUnknown"]
               + ["entry_cap%d" % c for c in (1, 2, 4, 5, 6, 64, 65, 69, 70, 71, 73, 75, 128)] + ["entry_capUnknown"]
               + ["entry_nlri:" + f for f in ("ipv4-unicast", "ipv6-unicast", "ipv4-multicast", "ipv6-multicast", "ipv4-labelled-unicast",
                                              "ipv6-labelled-unicast", "l3vpn-ipv4-unicast", "l3vpn-ipv6-unicast", "l3vpn-ipv4-multicast",
                                              "l3vpn-ipv6-multicast", "l2vpn-vpls", "l2vpn-evpn", "rtc", "ipv4-encap", "ipv6-encap", "ipv4-flowspec",
                                              "l3vpn-ipv4-flowspec", "ipv6-flowspec", "l3vpn-ipv6-flowspec", "l2vpn-flowspec", "opaque", "ls",
                                              "ipv4-srpolicy", "ipv6-srpolicy", "ipv4-mup", "ipv6-mup")],
    units=[dict(name="bgp", harness="t_bgp", files=["gen_", "c05_"], run="TestVerifC05",
                shards=dict(quick=16, thorough=16), timeout_s=dict(quick=900, thorough=7200)),
           dict(name="bgp_race", harness="t_bgp", files=["gen_", "c05_"], run="TestVerifC05", race=True, env={"VERIF_C05_RACE": "1"},
                shards=dict(quick=16, thorough=16), timeout_s=dict(quick=1200, thorough=7200))],
)

# properties not (yet) claimed, with the reason that goes into MANIFEST.not_applicable
NOT_CLAIMED = {}

PROPS["C14"] = dict(
    level="exploration",
    level_text="Runtime monitor over generated AS paths: the real send path (UpdatePathAttrs2ByteAs/UpdatePathAggregator2ByteAs + Serialize) and the real "
               "receive path of a 2-octet session (ParseBGPMessage with Use2ByteAS -> validateAsPathValueBytes, ValidateUpdateMsg, UpdatePathAttrs4ByteAs/"
               "UpdatePathAggregator4ByteAs) are executed on every case; the wire bytes are judged by an independent RFC 4271/6793 walker and the "
               "results by independent references for RFC 6793 4.2.2 (down-conversion) and 4.2.3 (reconstruction). Exploration is the right level: "
               "the path space is infinite; the generator spans the shapes the segment arithmetic depends on (leading confederation run, leading SET, "
               "255-member segments, SEQ/SET mixes, cut inside/at the edge of a segment, AS4_PATH longer than AS_PATH, confederation segments in AS4_PATH).",
    level_note="Trusts the harness' reading of RFC 6793 4.2.2/4.2.3/6 and RFC 5065 counting; paths are compared up to the segmentation of adjacent "
               "AS_SEQUENCE segments. The session itself (capability negotiation, fsm.twoByteAsTrans) is not run; the functions are called in the order fsm.go calls them.",
    technique="runtime round-trip + differential monitor (independent wire walker, RFC 6793 reference reconstruction) over generated AS_PATH/AGGREGATOR and (AS_PATH, AS4_PATH) pairs",
    rule="case = one AS_PATH (+ optional AGGREGATOR) sent to and re-learned from a 2-octet peer (60%), or one (AS_PATH, AS4_PATH) pair as delivered by a chain of OLD "
         "speakers (prepend / aggregate / confederation hop) or generated independently (40%); a round-trip case is non-trivial iff AS4_PATH or AS4_AGGREGATOR was needed; "
         "distinct by the sequence of (segment type, length class) of the path(s)",
    assumptions=["RFC 6793 counting of AS numbers is RFC 4271 9.1.2.2 + RFC 5065 (SET = 1, confederation segments = 0)",
                 "[SEQ a][SEQ b] and [SEQ a b] denote the same path",
                 "AS_PATHs have the RFC 5065 shape: confederation segments only as a leading run"],
    must_count=["roundtrip_paths", "roundtrip_with_as4", "pairs", "pairs_as4_longer", "pairs_with_prepended_part", "aggregators_as4", "as4_path_sent"],
    units=[dict(name="table", harness="t_table", files=["common_", "c14_"], run="TestVerifC14",
                shards=dict(quick=16, thorough=16), timeout_s=dict(quick=600, thorough=5400))],
)

PROPS["C16"] = dict(
    level="exploration",
    level_text="Model-based runtime monitors. Unit 'table': ROATable is driven through random Add/Delete/DeleteAll(source) histories next to a "
               "plain list of records; List/Info are compared with the list and 50 routes per set (all AS_PATH tail shapes, 2- and 4-octet AS) are "
               "classified by ROATable.Validate, by RpkiValidationCondition.Evaluate (wired as pkg/server does: PolicyOptions.Validate = "
               "roaTable.Validate) and by an RFC 6811 brute force over the list. Unit 'server': roaManager is driven with PDU sequences per cache "
               "through its real event channel (white box, and over loopback TCP through gobgp's own tryConnect/established goroutines), with "
               "disconnects, reconnects, lifetime expiry, AddServer/DeleteServer/SoftReset/Disable/Enable, and a whole BgpServer is driven through "
               "AddRpki/ResetRpki/DeleteRpki and observed through ListRpkiTable/ListRpki/ListPath. Exploration: ROA sets x routes and PDU "
               "histories are sampled, aimed at overlaps, equal prefixes, max-length edges, AS 0, duplicates, unknown withdrawals, session changes.",
    level_note="The RTR reference keeps per cache a MUST set (announced, committed by End of Data, not withdrawn) and a MAY set for what RFC 8210 / the "
               "property leave open (data learned before the router issued a Reset Query, data of an expired or hard-reset cache, operations of a "
               "response cut short by a reset or disconnect); a table between the two is accepted. Lifetime expiry is produced by stopping a timer "
               "gobgp armed and still holds pending, then invoking that timer's own callback; timers expire in arming order. The loopback caches are "
               "harness code; v4-mapped IPv6 prefixes only appear in unit 'table'.",
    technique="runtime model-based monitor: brute-force RFC 6811 reference over a record list (table unit); per-cache MUST/MAY record-set model compared "
              "with ROATable.List / GetServers / ListRpkiTable / ListRpki / ListPath after every step of generated RTR histories (server unit)",
    rule="table case = one ROA history (0-30 records aimed at, 1-3 sources) + 50 routes; non-trivial iff >=1 route has a covering record; distinct by "
         "(record shape multiset, verdict signature). rtr case = one history of 8-48 steps over 1-3 caches (white box 60% / loopback TCP 40%); "
         "non-trivial iff the table changed at least twice; distinct by (transport, step-kind sequence). api case = one BgpServer with 1-2 loopback "
         "caches: load, routes, incremental updates, soft reset, DeleteRpki; distinct by trace",
    assumptions=["origin AS as in RFC 6811 sec. 2: last AS of a path ending in AS_SEQUENCE; local AS for an empty path or one ending in confederation segments "
                 "(only confederation-only paths are generated); NotFound for a path ending in AS_SET",
                 "RTR: operations of one response take effect in the order sent, at End of Data at the latest; a new session id at End of Data flushes the "
                 "cache's records; DeleteServer removes them; a record of cache A is independent of the same record announced by cache B",
                 "where the property is silent the model accepts both outcomes: records learned before a Reset Query / reconnect / operator reset may stay "
                 "or go; a cache away for its record lifetime may be flushed; a lifetime timer may never touch a cache that re-synchronised or was removed",
                 "Enable/Disable/Reset/SoftReset take a bare address; they are only exercised when one configured cache has that address"],
    must_count=["v_routes", "v_cover_1", "v_cover_many", "v_as0_covering", "v_as_match_but_too_long", "v_condition_evals", "v_shape_seq+set",
                "v_shape_confed-seq-only", "v_shape_empty", "v_origin_4octet", "t_delete_unknown", "t_delete_all", "t_add_duplicate",
                "compares", "compares_exact", "table_changes", "pdu_announce-v4", "pdu_announce-v6", "pdu_withdraw-v4", "pdu_withdraw-v6",
                "pdu_cache-response", "pdu_end-of-data", "pdu_cache-reset", "pdu_serial-notify", "pdu_error-report", "step_new-session",
                "ev_connected", "ev_disconnected", "ev_lifetime_expiry", "router_reset_queries", "mgmt_delete_server", "mgmt_SoftReset",
                "api_table_compares", "api_listrpki_compares", "api_route_verdicts_covered", "api_DeleteRpki"],
    min_nontrivial=100,
    units=[dict(name="table", harness="t_table", files=["common_", "c16_"], run="TestVerifC16",
                shards=dict(quick=16, thorough=16), timeout_s=dict(quick=600, thorough=3600)),
           dict(name="server", harness="t_server", files=["c16_"], run="TestVerifC16",
                shards=dict(quick=16, thorough=16), timeout_s=dict(quick=600, thorough=5400))],
)

PROPS["C11"] = dict(
    level="exploration",
    level_text="Runtime monitor with boundary sweeps: CreateUpdateMsgFromPaths is executed on generated change lists, every produced message is "
               "serialised under the session options (as sendMessageloop does), decoded by an independent RFC 4271/4760/7911/8277/8950 reader and "
               "applied to a pre-populated receiver table; the end state, the End-of-RIB markers and every message size are compared with a "
               "reference that applies the changes one at a time. Exploration is the right level: the input space (lists x attribute sizes x "
               "families x options) is unbounded; attribute sizes are swept so that single-route and filled messages land within 64 octets of the "
               "4096/65535 limit and attribute value lengths cross 255/256.",
    level_note="Function level only (the sender loop is checked by the session-level unit). Trusts the harness' own wire reader and size arithmetic; "
               "2-octet-AS re-encoding, MRT options and families other than IPv4/IPv6 unicast, labelled unicast and MPLS VPN are not generated. "
               "A route that cannot fit counts as 'reported' iff it is in a produced message whose Serialize returns an error (what the sender logs).",
    technique="runtime monitor: independent wire reader + receiver table vs one-at-a-time reference, size and End-of-RIB checks, panic guard",
    rule="case = one change list (kinds: mix of announce/withdraw/End-of-RIB/nil over 1-3 families with repeated keys; single routes whose own "
         "message is limit+d, |d|<=64; groups of equal-attribute routes whose NLRI octets fill k messages +-64; oversize routes learned over an "
         "extended-message session packed for 4096; large lists up to 10k (quick) / 50k (thorough) prefixes) x per-family ADD-PATH "
         "none/receive/send/both x extended message on/off x forced equal attribute hashes x several local path ids per prefix; "
         "non-trivial iff >=2 messages were produced or a message/single route is within 64 octets of the limit or a key is repeated; distinct by "
         "(kind, families, ADD-PATH families, extended, message-count bucket, near-limit flags, repeat pattern, forced hash)",
    assumptions=["a receiver distinguishes routes by (family, NLRI without labels, path identifier as present on the wire)",
                 "a message whose Serialize fails is dropped and logged by the sender; nothing else reports an unsendable route",
                 "several identical End-of-RIB markers of one family in one list may be merged into one"],
    must_count=["messages_sent", "messages_within_64_of_limit", "messages_with_shared_attributes", "cases_with_repeated_key",
                "cases_with_2plus_messages", "eor_out", "cases_extended_message", "family_cases_addpath_on", "family_cases_addpath_off"],
    units=[dict(name="table", harness="t_table", files=["common_", "c11_"], run="TestVerifC11",
                shards=dict(quick=16, thorough=16), timeout_s=dict(quick=900, thorough=7200))],
)

PROPS["C10"] = dict(
    level="exploration",
    level_text="Differential runtime monitor at function level: random policy programs are loaded into a real RoutingPolicy through the "
               "configuration path, read back (GetDefinedSet/GetPolicy/GetStatement/GetPolicyAssignment and the API conversion) and executed with "
               "RoutingPolicy.ApplyPolicy on random routes; verdict and resulting attributes are compared with an independent interpreter of "
               "docs/sources/policy.md that works on the configuration structs, and the stored route / earlier per-peer results are snapshotted "
               "(serialised attributes, NLRI, next hop, slice backing arrays up to capacity) around every evaluation. Exploration is the right level: "
               "the space of programs x routes is unbounded; the generator covers every documented condition and action type under every option.",
    level_note="Trusts Go's regexp as the meaning of a configured pattern. Where policy.md / the oc struct comments leave the outcome open the "
               "interpreter reports 'ambiguous' and the comparison is skipped (counted per reason under amb:*), see assumptions. The daemon-level "
               "confirmation (ListPath / per-peer wire view) is a separate unit.",
    technique="runtime differential monitor (ApplyPolicy vs. documented-model interpreter) + snapshot/compare non-interference monitor + configuration read-back comparison",
    rule="case = one program (1-3 defined sets per type, 1-4 policies x 1-4 statements with 0-5 of the 15 condition types and any subset of the 8 "
         "modification actions + disposition, assignments for global and two neighbours, both directions, defaults ''/accept/reject) x 20 routes "
         "(v4/v6, local/internal/external, all attributes, slices with cap>len) x 2 evaluations (different assignment/direction/peer); an evaluation "
         "is non-trivial iff at least one statement applied or the default decided after at least one statement was evaluated; distinct by "
         "(condition types of the applied statements, actions applied, decided-by, verdict)",
    assumptions=["conditions of later statements see the route as modified by earlier applied statements (policy.md: the action is applied before the route proceeds to the next step)",
                 "the neighbor of a neighbor-set condition / peer-address is the peer the evaluation is for: the source on import, the destination on export, as pkg/server fills PolicyOptions.Info",
                 "a plain value in a community/ext-community/large-community set or remove list means exactly that value; anything else is a Go regexp searched in the canonical text",
                 "AS_PATH text is Quagga style (sequence 'a b', set '{a,b}', confed '(a b)' / '[a,b]'); '_' abbreviates (^|[,{}() ]|$) for every as-path-list entry, including the single-AS forms",
                 "only transitive extended communities take part in matching (RFC 7153); order of (ext/large) communities is not significant; an empty list equals an absent attribute; "
                 "AS_PATH segmentation of a sequence is not significant",
                 "left open by the documents and therefore skipped: MED +/- on a route without MED or leaving 0..2^32-1; last-as without leading AS_SEQUENCE; next-hop of another family; "
                 "next-hop unchanged / next-hop-in after an earlier next-hop action; self/peer-address without peer info; neighbor condition without neighbor; invert on a prefix set of "
                 "the other family; routes shorter than a prefix-list entry whose range reaches below its length; as-path-length with AS_SET/confed segments; local-pref-eq 100 without LOCAL_PREF; "
                 "an assignment id that was never configured; empty sets other than the neighbor set"],
    must_count=["programs", "compared", "snapshots_compared", "readback_statements", "readback_assignments", "dir:import", "dir:export",
                "assignment:global", "assignment:neighbor", "family:ipv4-unicast", "family:ipv6-unicast",
                "decided_by:statement:accept", "decided_by:statement:reject", "decided_by:default:accept", "decided_by:default:reject",
                "cond_true:prefix", "cond_true:neighbor", "cond_true:as-path", "cond_true:community", "cond_true:ext-community", "cond_true:large-community",
                "cond_true:as-path-length", "cond_true:community-count", "cond_true:origin", "cond_true:route-type", "cond_true:rpki", "cond_true:afi-safi-in",
                "cond_true:next-hop", "cond_true:local-pref-eq", "cond_true:med-eq",
                "action:community:add", "action:community:remove", "action:community:replace", "action:ext-community:add", "action:ext-community:remove",
                "action:ext-community:replace", "action:large-community:add", "action:large-community:remove", "action:large-community:replace",
                "action:med:replace", "action:med:add", "action:med:sub", "action:local-pref", "action:origin", "action:as-path-prepend:asn",
                "action:as-path-prepend:last-as", "action:next-hop:address", "action:next-hop:self", "action:next-hop:unchanged", "action:next-hop:peer-address"],
    units=[dict(name="table", harness="t_table", files=["common_", "c10_"], run="TestVerifC10",
                shards=dict(quick=16, thorough=16), timeout_s=dict(quick=900, thorough=7200))],
)

PROPS["C03"] = dict(
    level="exploration",
    level_text="Runtime monitor of the real Loc-RIB code (TableManager.Update -> destination.Calculate/insertSort, GetBestPath, GetMultiBestPath, Update.GetChanges) "
               "against an independent reference of the documented decision process (sequential elimination over the whole candidate set). Small-scope exhaustive "
               "inside each case: every permutation of the arrival order of the 2-5 candidates, 20 replace/withdraw interleavings ending in the same set, every "
               "pair and triple of routes for comparator sanity; exploration across cases: candidate sets are drawn from a grid built to tie at every step, "
               "under all 16 combinations of always-compare-med / ignore-as-path-length / external-compare-router-id / use-multiple-paths.",
    level_note="Where the documentation leaves a choice (confederation-member routes in the age/router-id steps, router-id between equally old eBGP routes, "
               "neighbouring AS of a path starting with AS_SET, age between local routes) the union over all readings is accepted; with MED not comparable across "
               "the candidates only membership in the admissible set (decision-process winner or winner of a pairwise tournament in some order) is required and "
               "order independence is not asserted. ORIGINATOR_ID/CLUSTER_LIST, IGP cost, weight, route-server views and sets larger than 5 are not exercised.",
    technique="runtime differential monitor (reference decision process + metamorphic order-independence + comparator total-preorder check) over generated candidate sets",
    rule="case = one candidate set of 2-5 routes from distinct sources (local, eBGP, iBGP, confederation member; optional earlier versions and transient routes), "
         "run through all arrival permutations (<=120), 20 interleavings and all ordered pairs, under the option combination case_index mod 16; non-trivial iff a "
         "reachable best exists and at least one step eliminated a candidate; distinct by (option combination, multiset of source kinds, sequence of deciding steps)",
    assumptions=["the documented order is the one in the property text / the comment in insertSort; confederation members are internal for eBGP-over-iBGP (RFC 5065, compareByASNumber comment)",
                 "router-id is the BGP identifier of the sending peer (no ORIGINATOR_ID)",
                 "SelectionOptions/UseMultiplePaths are process globals: cases run sequentially, 16 shards = 16 option combinations"],
    must_count=["candidate_sets", "arrival_orders", "interleavings", "pairs_observed", "triples_observed", "multipath_sets_with_several_members",
                "sets_med_comparable", "sets_med_not_comparable", "decided_at_med", "decided_at_age-routerid", "decided_at_neighbor-addr",
                "palette_confed+ibgp", "getchanges_streams_checked"],
    units=[dict(name="table", harness="t_table", files=["common_", "c03_"], run="TestVerifC03",
                shards=dict(quick=16, thorough=16), timeout_s=dict(quick=600, thorough=5400))],
)
