# Registry of checks. Each property lives in its OWN file /verif/registry.d/Cnn.py which does
#   PROPS["Cnn"] = dict(level=..., level_text=..., level_note=..., technique=..., rule=..., units=[...], ...)
# (PROPS, HARNESS_PKG and SHARED_PKGS are predefined when the file is executed). One file per property means
# builders never rewrite each other's entries. Do not add entries to this file.
import glob, os

# harness dir -> package directory inside /repo that the *_test.go files are overlaid into.
HARNESS_PKG = {
    "t_table": "internal/pkg/table",
    "t_bgp": "pkg/packet/bgp",
    "t_server": "pkg/server",
    "t_apiutil": "pkg/apiutil",
    "t_mrt": "pkg/packet/mrt",
    "t_bmp": "pkg/packet/bmp",
    "t_rtr": "pkg/packet/rtr",
    "t_zebra": "pkg/zebra",
    "t_bfd": "pkg/packet/bfd",
}
# plain packages injected at /repo/internal/verif/<name> (import github.com/osrg/gobgp/v4/internal/verif/<name>)
SHARED_PKGS = ["vlib", "wire", "gen", "refmodel"]

PROPS = {}
# properties not (yet) claimed, with the reason that goes into MANIFEST.not_applicable
NOT_CLAIMED = {}

_here = os.path.dirname(os.path.abspath(__file__))
for _f in sorted(glob.glob(os.path.join(_here, "registry.d", "C*.py"))):
    with open(_f) as _fh:
        exec(compile(_fh.read(), _f, "exec"), {"PROPS": PROPS, "HARNESS_PKG": HARNESS_PKG, "SHARED_PKGS": SHARED_PKGS, "NOT_CLAIMED": NOT_CLAIMED})

