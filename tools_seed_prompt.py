#!/usr/bin/env python3
"""tools_seed_prompt.py <PROP> <n> — creates scratch worktree /tmp/seed_<PROP>_<n> and prints the prompt for a seeding sub-agent
(property text only; nothing from /verif)."""
import json, subprocess, sys
prop, n = sys.argv[1], sys.argv[2]
wt = "/tmp/seed_%s_%s" % (prop, n)
subprocess.run(["git", "-C", "/repo", "worktree", "add", "--detach", wt, "HEAD"], check=True, capture_output=True)
p = [json.loads(l) for l in open("/verif/properties.jsonl") if json.loads(l)["id"] == prop][0]
flavour = {
 "1": "a change that only manifests under a particular multi-step SEQUENCE of operations/events or an unusual-but-valid input shape",
 "2": "a change that only manifests under a particular INTERLEAVING / timing / fault at a particular point, or through two cooperating sites that each look fine alone",
 "3": "a change in a rarely exercised branch (an option, a capability combination, a boundary value) that ordinary use would not expose at once",
 "4": "a change in bookkeeping that survives across events (a counter, an index, a cache, a flag kept per peer/route/session, cleanup or teardown code) which goes wrong only AFTER a particular earlier event (a previous session, a previous configuration, an earlier error) and stays latent otherwise",
 "5": "a change at the boundary between two components (management API and RIB, RIB and message packer, FSM and server loop, policy engine and table, config and runtime) where each side looks right on its own and ordinary single-component tests cannot see it",
}[{"6": "2", "7": "1", "8": "3", "9": "4"}.get(n, n if n in "12345" else "1")]  # 6-9: second round of flavours 2, 1, 3, 4
task = (f"""You are helping to evaluate a verification tool for the Go BGP daemon osrg/gobgp. Your job: plant ONE realistic bug.

Work ONLY inside the git worktree {wt} (a checkout of the repository at its current HEAD; Go module github.com/osrg/gobgp/v4). Do not read or write anything under /verif or /repo, and do not look at other /tmp/seed_* directories. The sandbox is offline: for every go command use `export GOFLAGS=-mod=mod GOPROXY=off` and do NOT set GOTOOLCHAIN or GOSUMDB.

The property the bug must break (this is all you get about it):

  id: {p['id']} — {p['title']}
  statement: {p['statement']}
  quantified over: {p['quantifier']['text']}
  relevant files: {', '.join(p['anchors']['files'])}

Produce {flavour}. Requirements:
 1. The change is small (typically 1–15 lines in non-test .go files), looks like a plausible refactoring slip or optimisation, and breaks the property as STATED above (not some neighbouring behaviour).
 2. The repository still compiles (`go build ./...`) and its EXISTING tests still pass for every package you touched and for ./pkg/server/ if you touched anything it depends on: run `go test -count=1 -vet=off <pkgs>`; for pkg/server compile `go test -c -vet=off -o {wt}/OUT/server.test ./pkg/server/` and run it from the pkg/server directory inside a private network namespace: `cd pkg/server && unshare -n sh -c 'ip link set lo up; {wt}/OUT/server.test -test.count=1 -test.timeout 40m'` (≈3 min; the namespace avoids port clashes with other jobs). Do not edit or delete existing tests.
 3. It needs something specific to manifest (see the flavour above) — not something every ordinary run shows at once.
 4. Write a DEMONSTRATION: a new Go test file (or small program) that FAILS with your change and PASSES on the unmodified tree, exercising the real code (public API or white-box in-package test). Keep it deterministic and fast (< 60 s).
 5. Deliver in {wt}/OUT/ : `patch.diff` (output of `git diff` restricted to your non-test source change only, WITHOUT the demonstration), the demonstration file(s) (e.g. `demo_test.go` plus a line in notes saying into which package directory it must be copied and how to run it), and `notes.md`: what you changed and why it breaks the property, what exactly is needed for it to manifest, the commands you ran and their results (build, existing tests, demo with and without the change).
 6. Leave the worktree with your change applied (uncommitted) and the demo file in place. Do not commit. NEVER use `git stash` (the stash is shared by all worktrees of this repository and other people work in sibling worktrees): to test the unmodified tree use `git diff > OUT/patch.diff; git apply -R OUT/patch.diff; ...; git apply OUT/patch.diff`.
Answer with a 10-line summary when done.""")
import os
os.makedirs(wt + "/OUT", exist_ok=True)
open(wt + "/TASK.md", "w").write(task)
print(wt + "/TASK.md")
