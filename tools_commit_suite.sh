#!/bin/bash
# tools_commit_suite.sh [parallel] — runs the repository's own test suite (hooks off) at EVERY commit after the pinned
# base, each in its own scratch worktree and private network namespace; one result line per commit in
# /verif/notes/commit_suite.log. Development aid: shows that each `fix:` commit on its own keeps the unedited suite green.
PAR=${1:-6}
export GOFLAGS=-mod=mod GOPROXY=off
BASE=$(git -C /repo rev-list --max-parents=0 HEAD | tail -1)
OUT=/verif/notes/commit_suite.log
: > $OUT
one() {
  c=$1; wt=/tmp/cs_$c
  git -C /repo worktree add --detach $wt $c >/dev/null 2>&1 || { echo "$c worktree-failed" >> $OUT; return; }
  (cd $wt && unshare -n sh -c "ip link set lo up; go test -count=1 -vet=off ./... " > /tmp/cs_$c.log 2>&1); rc=$?
  fails=$(grep -- '^--- FAIL\|^FAIL' /tmp/cs_$c.log | head -4 | tr '\n' ';')
  echo "$c rc=$rc $(git -C /repo log -1 --format=%s $c | cut -c1-80) $fails" >> $OUT
  git -C /repo worktree remove --force $wt; rm -f /tmp/cs_$c.log
}
export -f one; export OUT
git -C /repo rev-list --reverse --abbrev-commit $BASE..HEAD | xargs -P $PAR -I{} bash -c 'one {}'
git -C /repo worktree prune
echo "done: $(grep -c 'rc=0' $OUT) pass, $(grep -vc 'rc=0' $OUT) not"
