#!/bin/bash
# tools_seed_eval.sh <PROP> <n> [extra props to check ...]
# Independently confirms a seeded change delivered in /tmp/seed_<PROP>_<n>/OUT (patch.diff + demo + notes.md):
#   builds, existing tests of the touched packages (+ pkg/server suite in a netns when core packages are touched),
#   demo fails with / passes without the change, then runs ./check for <PROP> (and extras) against the changed tree.
# Keeps the result as /verif/seeded/<PROP>_<n>/ (patch.diff, demo files, notes.md, meta.json). Removes its worktrees.
set -u
P=$1; N=$2; shift 2; EXTRA="$@"
SRC=/tmp/seed_${P}_${N}; OUT=$SRC/OUT
E=/tmp/eval_${P}_${N}; C=/tmp/evalclean_${P}_${N}
export GOFLAGS=-mod=mod GOPROXY=off
[ -f $OUT/patch.diff ] || { echo "no patch.diff"; exit 2; }
git -C /repo worktree remove --force $E 2>/dev/null; git -C /repo worktree remove --force $C 2>/dev/null
git -C /repo worktree add --detach $E HEAD >/dev/null 2>&1 || exit 2
git -C /repo worktree add --detach $C HEAD >/dev/null 2>&1 || exit 2
res() { echo "$1" >> $E/.evalres; echo "  $1"; }
: > $E/.evalres
if git -C $E apply $OUT/patch.diff 2>/tmp/eval_apply_err; then res "apply=ok"; elif git -C $E apply -3 $OUT/patch.diff 2>/tmp/eval_apply_err && git -C $E reset -q; then res "apply=ok (3-way: HEAD moved since the change was written)"; else res "apply=FAILED $(head -c 300 /tmp/eval_apply_err)"; fi
touched=$(git -C $E diff --name-only | grep '\.go$' | grep -v _test.go | xargs -n1 dirname 2>/dev/null | sort -u)
res "touched=$(echo $touched | tr '\n' ' ')"
(cd $E && go build ./... >/tmp/eval_build.log 2>&1) && res "build=ok" || res "build=FAILED"
pk=""; core=0
for d in $touched; do pk="$pk ./$d/"; case $d in pkg/server|internal/pkg/table|pkg/packet/bgp|pkg/config/oc|pkg/apiutil) core=1;; esac; done
(cd $E && go test -count=1 -vet=off $pk >/tmp/eval_pkgtest.log 2>&1) ; rc=$?
if echo " $pk " | grep -q "pkg/server/"; then res "pkgtests(non-netns, may hit port clashes) rc=$rc"; else [ $rc = 0 ] && res "existing_tests_touched_pkgs=pass" || res "existing_tests_touched_pkgs=FAIL $(grep -m3 -- '--- FAIL' /tmp/eval_pkgtest.log | tr '\n' ';')"; fi
if [ $core = 1 ]; then
  (cd $E && go test -c -vet=off -o $E/server.test ./pkg/server/ >/dev/null 2>&1 && cd pkg/server && unshare -n sh -c "ip link set lo up; $E/server.test -test.count=1 -test.timeout 40m" > /tmp/eval_server.log 2>&1); rc=$?
  [ $rc = 0 ] && res "existing_pkg_server_suite=pass" || res "existing_pkg_server_suite=FAIL $(grep -m3 -- '--- FAIL' /tmp/eval_server.log | tr '\n' ';')"
  rm -f $E/server.test
fi
# demo: find test files delivered and where they go (notes say; default: same relative dir as in the seed worktree)
demo_rc_with=NA; demo_rc_without=NA
demos=$(cd $SRC && git status --porcelain | grep '^??' | awk '{print $2}' | grep -v '^OUT' | grep '\.go$')
res "demo_files=$(echo $demos | tr '\n' ' ')"
if [ -n "$demos" ]; then
  dpk=""
  for f in $demos; do mkdir -p $E/$(dirname $f) $C/$(dirname $f); cp $SRC/$f $E/$f; cp $SRC/$f $C/$f; dpk="$dpk ./$(dirname $f)/"; done
  dpk=$(echo $dpk | tr ' ' '\n' | sort -u | tr '\n' ' ')
  names=$(grep -h '^func Test' $(for f in $demos; do echo $SRC/$f; done) | sed 's/func \(Test[A-Za-z0-9_]*\).*/\1/' | paste -sd'|')
  (cd $E && timeout 900 unshare -n sh -c "ip link set lo up; go test -count=1 -vet=off -run '^($names)\$' $dpk" >/tmp/eval_demo_with.log 2>&1); demo_rc_with=$?
  (cd $C && timeout 900 unshare -n sh -c "ip link set lo up; go test -count=1 -vet=off -run '^($names)\$' $dpk" >/tmp/eval_demo_without.log 2>&1); demo_rc_without=$?
  for f in $demos; do rm -f $E/$f; done
fi
res "demo_with_change_rc=$demo_rc_with (expect non-zero)"; res "demo_without_change_rc=$demo_rc_without (expect 0)"
# our checks against the changed tree
for Q in $P $EXTRA; do
  out=$(cd /verif && VERIF_REPO=$E timeout 3000 ./check $Q --tier quick 2>&1); rc=$?
  keys=$(echo "$out" | grep '^  key=' | sed 's/  key=//' | head -6 | paste -sd';')
  res "check_$Q rc=$rc $(echo "$out" | grep "^$Q tier" | tail -1 | cut -c1-120) keys=$keys"
done
D=/verif/seeded/${P}_${N}; mkdir -p $D
cp $OUT/patch.diff $D/; [ -f $OUT/notes.md ] && cp $OUT/notes.md $D/
for f in $demos; do mkdir -p $D/demo/$(dirname $f); cp $SRC/$f $D/demo/$f; done
python3 - "$P" "$N" "$E/.evalres" "$D" <<'PY'
import json,sys
P,N,resf,D=sys.argv[1:5]
lines=[l.strip() for l in open(resf) if l.strip()]
meta={"property":P,"seed_id":"%s_%s"%(P,N),"repo_head":__import__('subprocess').run(['git','-C','/repo','rev-parse','--short','HEAD'],capture_output=True,text=True).stdout.strip(),
      "what_ran":lines,"needs_to_manifest":"see notes.md","caught_by":[l.split()[0][6:] for l in lines if l.startswith("check_") and " rc=1 " in l]}
json.dump(meta,open(D+"/meta.json","w"),indent=1)
print("meta written:",D,"caught_by",meta["caught_by"])
PY
git -C /repo worktree remove --force $E; git -C /repo worktree remove --force $C
