#!/bin/sh
# tools_seedsweep.sh <tier> <seed>... — every registered check at each of the given seeds; one line per run in notes/seedsweep.log
tier=$1; shift
cd /verif
for s in "$@"; do
  for p in C01 C02 C03 C04 C05 C06 C07 C08 C09 C10 C11 C12 C13 C14 C15 C16 C17 C18 C19 C20; do
    out=$(VERIF_SEED=$s ./check $p --tier $tier 2>&1); rc=$?
    line="$(date +%H:%M) seed=$s rc=$rc $(echo "$out" | grep "^$p tier" | tail -1)"
    echo "$line" | tee -a notes/seedsweep.log
    [ $rc != 0 ] && echo "$out" | grep "^VIOLATION\|^  key=\|^INCONCLUSIVE" | cut -c1-300 | head -8 | tee -a notes/seedsweep.log
  done
done
